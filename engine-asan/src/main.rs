#![allow(dead_code)]
//! `vha` -- the C05 histories (same source as in `vh`: seqx.rs + c05core.rs) compiled with AddressSanitizer.
//!
//!   vha explore <quick|thorough> <config name> <marker file>   explores one configuration; before every replay the history is written to
//!                                                                the marker file, so that a sanitizer abort can be attributed
//!   vha replay <quick|thorough> <config name> <c0,c1,...>       replays one history (choice indices)
//!
//! exit 0 = nothing found; 3 = the reference model disagreed (the non-sanitizer build reports those); a sanitizer report aborts.

#[path = "../../engine/src/seqx.rs"]
mod seqx;
#[path = "../../engine/src/c05core.rs"]
mod c05core;

use std::io::Write;

fn main() {
    std::panic::set_hook(Box::new(|_| {}));
    let args: Vec<String> = std::env::args().collect();
    let thorough = args.get(2).map(|s| s == "thorough").unwrap_or(false);
    let name = args.get(3).cloned().unwrap_or_default();
    let Some(cfg) = c05core::configs(thorough).into_iter().find(|c| c.name == name) else { eprintln!("unknown configuration {name}"); std::process::exit(2) };
    match args.get(1).map(|s| s.as_str()) {
        Some("explore") => {
            let marker = args.get(4).cloned().unwrap_or_default();
            let cap: u64 = std::env::var("VHA_CAP_S").ok().and_then(|s| s.parse().ok()).unwrap_or(if thorough { 1200 } else { 40 });
            let deadline = std::time::Instant::now() + std::time::Duration::from_secs(cap);
            let mut file = std::fs::OpenOptions::new().create(true).write(true).truncate(true).open(&marker).ok();
            let res = seqx::explore_with(&cfg, deadline, 2_000_000, |hist: &[usize]| {
                if let Some(f) = file.as_mut() { use std::os::unix::fs::FileExt; let s = format!("{:?}\n{:160}", hist, ""); let _ = f.write_at(s.as_bytes(), 0); }
            });
            println!("{{\"config\":\"{}\",\"states\":{},\"transitions\":{},\"replays\":{},\"depth\":{},\"capped\":{},\"model_disagreements\":{}}}", name, res.states, res.transitions, res.replays, res.depth, res.capped, res.violations.len());
            let _ = std::io::stdout().flush();
            std::process::exit(if res.violations.is_empty() { 0 } else { 3 });
        }
        Some("replay") => {
            let choices: Vec<usize> = args.get(4).map(|s| s.split(',').filter_map(|x| x.trim().parse().ok()).collect()).unwrap_or_default();
            match seqx::replay(&cfg, &choices) {
                Ok((mut sys, names, obs)) => { for (n, o) in names.iter().zip(obs.iter()) { println!("  {n} => {o}") } let e = sys.epilogue(); println!("  teardown => {:?}", e); }
                Err((i, names, bad)) => { println!("  {:?} -- step {i}: {:?}", names, bad) }
            }
        }
        _ => { eprintln!("usage: vha explore|replay ..."); std::process::exit(2) }
    }
}
