#!/usr/bin/env python3
"""Maintenance helper: prints the markdown table of /verif/seeded/*/meta.json (name, property, what it needs, caught by) and, with --write,
replaces the table in DESIGN.md (between the markers)."""
import json, glob, os, sys, re
rows = []
for d in sorted(glob.glob('/verif/seeded/*/')):
    try: m = json.load(open(d + 'meta.json'))
    except Exception: continue
    name = os.path.basename(d.rstrip('/'))
    needs = m.get('needs_short') or ''
    if not needs:
        try:
            notes = open(d + 'notes.md').read()
            first = notes.strip().splitlines()[0].lstrip('# ').strip()
            needs = first[:140]
        except Exception: needs = ''
    exits = m.get('checks_run', {}).get('exit_codes (1 = VIOLATION reported)', {})
    caught = m.get('caught_by', [])
    missed = sorted(k for k, v in exits.items() if v == 0)
    rows.append((name, m.get('breaks_property', '?'), needs.replace('|', '/'), ', '.join(caught) if caught else '**not caught**', ', '.join(missed)))
out = ['| change | breaks | what it is | caught by (quick tier) | run and silent |', '|---|---|---|---|---|']
out += [f'| {a} | {b} | {c} | {d} | {e} |' for a, b, c, d, e in rows]
table = '\n'.join(out)
if '--write' in sys.argv:
    p = '/verif/DESIGN.md'; s = open(p).read()
    if 'SEEDED_TABLE_PLACEHOLDER' in s: s = s.replace('SEEDED_TABLE_PLACEHOLDER', '<!-- seeded-table -->\n' + table + '\n<!-- /seeded-table -->')
    else: s = re.sub(r'<!-- seeded-table -->.*?<!-- /seeded-table -->', '<!-- seeded-table -->\n' + table + '\n<!-- /seeded-table -->', s, flags=re.S)
    open(p, 'w').write(s)
print(table)
