#!/usr/bin/env python3
"""Writes /verif/MANIFEST.json from the table below (maintenance helper; run by hand after adding a check)."""
import json
HOOK_COMMITS = ["7c8ef5d", "00db8be", "c5ee400", "dd5a18b", "c6ca934"]
E2_NOTE = ("Sequential histories through the public API; the state space is closed by cycling payload values with period 8 and by BUFFER/MAX_STREAMS in {small}; where no fixpoint is reached the depth is reported in the evidence. Trusted: rustc, std, crossbeam-channel, the reference models, the seqx engine; the canonical state relies on the VerifState hook reporting every field that influences behaviour.")
E1_NOTE = ("Sequentially consistent interleavings at the granularity of the hooked operations (every protocol atomic, every plain shared "
           "access listed in DESIGN.md §1); Ordering arguments, weak-memory effects, torn plain accesses and spurious weak-CAS failures are not modelled. "
           "Threads, operations per thread and the deviation bound are finite and reported in the evidence. Trusted: rustc, std, crossbeam-channel, "
           "parking_lot, tokio current-thread runtime with paused clock, futures combinators, the mcx engine.")
checks = {
 "C01": ("mcx", "E1: every schedule (deviation-bounded DFS under a controlled scheduler) of 1-3 producers x 1-2 polled streams on the five real Uni channels, all send entry points, BUFFER 2/4; oracle: multiset delivered == multiset accepted, rejection contract, pending count", "§4 C01", "stateless deviation-bounded DFS over thread schedules of the real code + exactly-once oracle"),
 "C02": ("mcx", "E1: same executions plus the four raw rings; oracle: brute-force linearizability against a bounded FIFO, permissive interval rule for 'full' answers, length range", "§4 C02", "stateless deviation-bounded DFS over thread schedules + Wing-Gong linearizability search"),
 "C03": ("mcx", "E1: every schedule of 1-3 producers x 1-2 independently polled listeners (fixed listener set, dense and non-dense stream ids) on the six real Multi channels, all implemented send entry points, fewer events than BUFFER; oracle per listener: exactly-once, per-producer order, nothing alien; across listeners: same allocation per event, distinct storage for events held simultaneously", "§4 C03", "stateless deviation-bounded DFS over thread schedules of the real code + per-listener exactly-once/order oracle"),
 "C04": ("mcx", "E1: every schedule of producers against *driven* (park/unpark) streams for the 11 channel kinds x entry points x MAX_STREAMS x streams created; oracle: no accepted event pending when all producers returned and all streams are parked", "§4 C04", "stateless deviation-bounded DFS over thread schedules + quiescence oracle"),
 "C07": ("mcx", "E1: every schedule of a requester (cancel_all_streams, or gracefully_end_stream of one id on a paused tokio runtime) against 1-2 driven streams and a concurrent producer, for the 11 channel kinds; oracle at quiescence: no targeted stream is left parked, nothing alien/duplicated is yielded, stream accounting and id reuse are exact, untargeted streams still receive an event sent afterwards", "§4 C07", "stateless deviation-bounded DFS over thread schedules + quiescence oracle"),
 "C09": ("mcx", "E1: every schedule of 1-2 publishers (send / send_with) on the real mmap-log channel against a subscription made at an arbitrary point (new-only / old+new split / old+new joined) and a concurrently consuming joined listener, with 0-2 events of prior history; oracle after a sequential drain: one total order containing every accepted event once and extending each publisher's order; joined listeners agree; old ++ new of a split equals it, old ends by itself, the split point respects real time; new-only is a gapless suffix containing everything sent after the subscription returned; every reference still reads the value it was yielded with, one address per event", "§4 C09", "stateless deviation-bounded DFS over thread schedules + total-order / partition oracle"),
 "C10": ("seqx", "E2: breadth-first search over every history of create-listener / send / poll / drop-listener (with or without leftovers) / cancel_all on the five real non-log Multi channels, MAX_STREAMS 1, 2 (to a fixpoint of canonical states: internal counters and lists + reference model) and 4 (to depth 11); every transition is compared with a reference model of listener lifetimes (poll yields exactly the next event sent during the listener's life or nothing; end-of-stream iff cancelled and drained), running_streams_count() == live listeners and pending count after every step, ids stay within MAX_STREAMS and never belong to two listeners, all ids reusable after every history", "§4 C10", "explicit-state BFS over operation histories of the real object, deduplicated on internal bookkeeping + model, against a reference model"),
 "C13": ("mcx", "E1: every schedule of 2-4 threads x 1-3 alloc_ref / alloc_with / dealloc_id / dealloc_ref operations on both pool allocators (POOL 2/4, slots pre-owned by the threads so that frees race allocations); oracle: ownership table (no slot handed out while owned, owner re-reads what it wrote), permissive interval rule for failed allocations, capacity restored afterwards, id<->reference bijection", "§4 C13", "stateless deviation-bounded DFS over thread schedules + ownership-table oracle"),
 "C14": ("mcx", "E1: every schedule of 2-4 threads cloning / dropping / dereferencing OgreArc handles to one pooled instrumented value, for every constructor (new_with_clones, new_with+clone, increment_references+raw_copy, OgreUnique::into_ogre_arc), both allocators, 0-2 handles kept by the harness; oracle: every deref reads the value, destructor count 0 while a handle lives and exactly 1 afterwards, references_count() at rest, slot returned to the pool", "§4 C14", "stateless deviation-bounded DFS over thread schedules + instrumented-payload oracle"),
 "C19": ("mcx", "E1: every schedule of 2-3 recorder threads x 1-3 inc() with one probing reader on AtomicIncrementalAverage64; oracle: final count exact, final average = mean, every (count, average) reading explained by some set of measurements consistent with real time (brute force over subsets)", "§4 C19", "stateless deviation-bounded DFS over thread schedules + subset-explanation oracle"),
 "C17": ("mcx", "E1: every schedule of a producer's fan-out (1-2 sends, all implemented entry points) against a churn thread that creates a listener, or drops the first / the last created one, with 2-3 listeners that exist throughout, for the six Multi channel kinds (MAX_STREAMS 4); oracle after a sequential drain: stable listeners yield exactly the accepted sequence, the added one a gapless suffix (containing everything sent after its creation returned), the removed one a gapless prefix; OgreArc channels accept exactly BUFFER_SIZE events afterwards", "§4 C17", "stateless deviation-bounded DFS over thread schedules + exactly-once / suffix / prefix / capacity oracle"),
 "C20": ("mcx", "E1: every schedule of a send_with_async whose setter stays suspended (its thread parked in the harness until the judge releases it) against one other operation (send, send_with, reserve+send, a ready or a second suspended send_with_async, a length query, issued by another thread or by the same one) and the consumer's polls, for every Uni and non-log Multi kind, with 0-1 events already pending; oracle: nobody ends blocked spinning while only suspended sends are outstanding (stall verdict of the scheduler), events accepted meanwhile are yielded while the send is still suspended, the suspended event arrives after resumption, nothing twice", "§4 C20", "stateless deviation-bounded DFS over thread schedules + stall / delivery-while-suspended oracle"),
 "C18": ("mcx", "E1: every schedule of 2-4 threads x 2-3 operations on the four stand-alone containers (capacity 2/4, prefilled 0-2); oracle: strict linearizability against a bounded LIFO / FIFO including 'full' and 'empty' answers", "§4 C18", "stateless deviation-bounded DFS over thread schedules + Wing-Gong linearizability search"),
}
ALL = ["C%02d" % i for i in range(1, 21)]
m = {
 "version": 1,
 "setup_cmd": "cd /verif/engine && CARGO_NET_OFFLINE=true cargo build --release --offline",
 "hooks": {
   "guard": "cargo feature `verif` of reactive-mutiny (off by default)",
   "enable": "the harness crate /verif/engine depends on reactive-mutiny = { path = \"/repo\", features = [\"verif\"] }; every ./check rebuilds it against /repo's working tree",
   "baseline_off_cmd": "cd /repo && cargo test --workspace --no-fail-fast --offline",
   "source_commits": HOOK_COMMITS,
   "add_only": True,
 },
 "engines": [
   {"name": "seqx", "path": "/verif/engine/src/seqx.rs", "serves_properties": sorted(k for k, v in checks.items() if "seqx" in v[0]),
    "kind_free_text": "E2: explicit-state breadth-first search over operation histories of the real objects (fresh object + replay per state), deduplicated on the objects' internal bookkeeping (VerifState hook) plus the reference model; every transition compared with the model"},
   {"name": "mcx", "path": "/verif/engine/src/mcx.rs", "serves_properties": sorted(k for k, v in checks.items() if "mcx" in v[0]),
    "kind_free_text": "E1: controlled scheduler (baton-passing OS threads driven by the hooks of the `verif` feature) + stateless deviation-bounded depth-first exploration of schedules of the real code; 16 worker processes"},
 ],
 "checks": [],
 "notes": "See /verif/DESIGN.md. ./check <ID> quick|thorough ; exit 0 = held (KNOWN-FINDING lines list recorded genuine defects), 1 = VIOLATION, 2 = machinery failure. Known findings: /verif/known_findings.txt.",
 "not_applicable": [],
}
for pid in ALL:
    if pid in checks:
        eng, text, ref, tech = checks[pid]
        m["checks"].append({
          "property_id": pid,
          "quick_cmd": f"./check {pid} quick",
          "thorough_cmd": f"./check {pid} thorough",
          "evidence_file": f"/verif/evidence/{pid}.json",
          "replay_cmd_template": f"./check {pid} --replay {{path}}",
          "engine": eng,
          "level_claimed": {"category": "model_checking", "text": text, "design_ref": ref},
          "level_note": (E2_NOTE if eng == "seqx" else E1_NOTE + (" " + E2_NOTE if "seqx" in eng else "")),
          "technique": tech,
        })
    else:
        m["not_applicable"].append({"property_id": pid, "reason": "check under construction in this session (designed in DESIGN.md §4); not claimed until its harness is committed"})
json.dump(m, open("/verif/MANIFEST.json", "w"), indent=1)
print("checks:", len(m["checks"]), "not_applicable:", len(m["not_applicable"]))
