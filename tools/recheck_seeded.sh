#!/bin/bash
# Maintenance helper: re-runs checks against an already filed seeded change and updates its meta.json
#   recheck_seeded.sh <name> <tier> <check ids...>
NAME="$1"; TIER="$2"; shift 2
D=/verif/seeded/$NAME
/verif/tools/try_mutant.sh $D/patch.diff "$TIER" "$@" > $D/checks.log 2>&1
python3 - "$NAME" "$TIER" "$@" <<'PY'
import sys, json, re
name, tier, *ids = sys.argv[1:]
d = f"/verif/seeded/{name}"
chk = open(f"{d}/checks.log").read()
m = json.load(open(f"{d}/meta.json"))
caught = {x.group(1): int(x.group(2)) for x in re.finditer(r"== (\S+) \S+ exit=(\d+)", chk)}
kinds = {}
for x in re.finditer(r"VIOLATION property=(\S+) .*?signature=(\S+)", chk):
    kinds.setdefault(x.group(1), []).append(x.group(2))
m["checks_run"] = {"tier": tier, "command": f"tools/try_mutant.sh patch.diff {tier} " + " ".join(ids), "exit_codes (1 = VIOLATION reported)": caught, "first_signatures": {k: v[:3] for k, v in kinds.items()}}
m["caught_by"] = sorted(k for k, v in caught.items() if v == 1)
json.dump(m, open(f"{d}/meta.json", "w"), indent=1)
print(name, "caught_by", m["caught_by"], caught)
PY
