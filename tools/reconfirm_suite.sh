#!/bin/bash
# Maintenance helper: re-runs the pinned suite (up to 3 times, until clean) with a filed seeded change applied in a scratch worktree and
# updates its meta.json; used when the first confirmation ran on an overloaded machine (timing-sensitive tests of the suite flake).
#   reconfirm_suite.sh <worktree> <name> [<name> ...]
WT="$1"; shift
cd "$WT" || exit 2
export CARGO_TARGET_DIR="$WT/target"
for NAME in "$@"; do
  D=/verif/seeded/$NAME
  git checkout -q -- src; git apply "$D/patch.diff" || { echo "$NAME: patch does not apply"; continue; }
  OK=0; RUNS=0
  for i in 1 2 3; do
    RUNS=$i
    cargo test --offline --no-fail-fast --lib --test api --test use_cases > /tmp/reconf.$$ 2>&1
    if grep -q "143 passed; 1 failed" /tmp/reconf.$$ && grep -q "test result: ok. 1 passed; 0 failed" /tmp/reconf.$$ && grep -q "test result: ok. 6 passed; 0 failed" /tmp/reconf.$$; then OK=1; break; fi
    grep -E "^test .* FAILED" /tmp/reconf.$$ | tr '\n' '|'; echo
  done
  git checkout -q -- src
  python3 - "$NAME" "$OK" "$RUNS" <<'PY'
import sys, json
name, ok, runs = sys.argv[1], sys.argv[2] == "1", int(sys.argv[3])
p = f"/verif/seeded/{name}/meta.json"
m = json.load(open(p))
c = m["confirmed_by_me"]
for k in list(c):
    if k.startswith("pinned_suite_passes_with_change"): c[k] = ok
c["suite_reconfirmed"] = f"tools/reconfirm_suite.sh: clean run (143 lib + 1 api + 6 use_cases, only the two always-failing tests) on attempt {runs} of at most 3; the first confirmation ran on an overloaded machine where timing-sensitive tests of the suite flake on the unchanged tree as well" if ok else f"no clean run in {runs} attempts"
json.dump(m, open(p, "w"), indent=1)
print(name, "suite_ok", ok, "attempts", runs)
PY
done
rm -f /tmp/reconf.$$
