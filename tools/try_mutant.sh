#!/bin/bash
# Maintenance helper (never run by a check): applies a seeded change to /repo, runs the given checks, reverts /repo.
#   try_mutant.sh <patch> <tier> <ID> [<ID> ...]
PATCH="$1"; TIER="$2"; shift 2
cd /repo && git diff --quiet || { echo "/repo is dirty"; exit 2; }
git -C /repo apply "$PATCH" || { echo "patch does not apply"; exit 2; }
trap 'git -C /repo checkout -- .' EXIT
cd /verif
for ID in "$@"; do
  OUT=$(VH_NO_EVIDENCE=1 ./check "$ID" "$TIER" 2>&1); RC=$?
  echo "== $ID $TIER exit=$RC  $(echo "$OUT" | grep -c '^VIOLATION') violation line(s)"
  echo "$OUT" | grep -E '^(VIOLATION|ENGINE-ERROR)' | cut -c1-330 | head -${TRY_LINES:-4}
  echo "$OUT" | grep '^SUMMARY' | cut -c1-250
done
