#!/bin/bash
# Maintenance helper: files change <n> delivered by a round-3 sub-agent for property <P> as /verif/seeded/<P>-<letter>
#   file_round.sh <P> <n> <letter> <tier> <check ids...>
P="$1"; N="$2"; L="$3"; TIER="$4"; shift 4
WT=/tmp/wt/$P-r3; D=$WT/deliver
DEMO=$(ls $D/demo_${P}_r3_${N}.rs 2>/dev/null || ls $D/demo*${N}.rs | head -1)
[ -f "$D/notes$N.md" ] || echo "(no notes delivered)" > $D/notes$N.md
( cd $WT && git checkout -q -- src )
/verif/tools/seed.sh "$P-$L" "$P" "$WT" "$D/change$N.diff" "$DEMO" "$D/notes$N.md" "$TIER" "$@"
