#!/usr/bin/env python3
"""Maintenance helper (never run by a check): turns the VIOLATION lines of check runs given on stdin into candidate
`finding:` lines -- one per (property, family, kind), carrying the antichain of minimal failing rungs.
The candidates are reviewed by hand (each must be a genuine defect reproduced against the real code) before they
are copied into known_findings.txt."""
import re, sys, collections
def nums(r): return [int(re.sub(r'^\D*', '', p) or 0) for p in r.split('-')]
def dom(a, b):
    if re.search('[a-z]', a) or re.search('[a-z]', b): return a == b
    x, y = nums(a), nums(b)
    return len(x) == len(y) and all(p >= q for p, q in zip(x, y))
seen = collections.defaultdict(set)
text = {}
for line in sys.stdin:
    m = re.search(r'VIOLATION property=(\S+) .*signature=\S+?/(.+)@(\S+) -- (.*)', line)
    if not m: continue
    prop, famkind, rung, detail = m.groups()
    # famkind = family/kind where kind is one of the known suffixes
    for k in ('lost-wakeup/inflight', 'lost-wakeup/late', 'not-linearizable/false-empty+false-full', 'not-linearizable/false-empty', 'not-linearizable/false-full', 'not-linearizable/order-or-loss'):
        if famkind.endswith('/' + k):
            fam, kind = famkind[:-len(k) - 1], k; break
    else:
        fam, kind = famkind.rsplit('/', 1)
    seen[(prop, fam, kind)].add(rung)
for (prop, fam, kind), rungs in sorted(seen.items()):
    mins = [r for r in rungs if not any(o != r and dom(r, o) for o in rungs)]
    for r in sorted(mins):
        print(f"finding: property={prop} family={fam} kind={kind} min_rung={r} TODO-describe")
