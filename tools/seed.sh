#!/bin/bash
# Maintenance helper: confirm a seeded change, run checks against it, and file it under /verif/seeded/<name>/
#   seed.sh <name> <prop> <worktree> <patch> <demo-file> <notes> <tier> <check ids...>   [DEMO_ARGS env = extra cargo args for the demo]
NAME="$1"; PROP="$2"; WT="$3"; PATCH="$4"; DEMOF="$5"; NOTES="$6"; TIER="$7"; shift 7
D=/verif/seeded/$NAME; mkdir -p $D
cp "$PATCH" $D/patch.diff; cp "$DEMOF" $D/; cp "$NOTES" $D/notes.md
DEMO=$(basename "$DEMOF" .rs)
cp "$DEMOF" "$WT/tests/" 2>/dev/null
/verif/tools/confirm_mutant.sh "$WT" "$PATCH" "$DEMO" $DEMO_ARGS > $D/confirm.log 2>&1
/verif/tools/try_mutant.sh "$PATCH" "$TIER" "$@" > $D/checks.log 2>&1
python3 - "$NAME" "$PROP" "$DEMO" "$TIER" "$@" <<'PY'
import sys, json, re
name, prop, demo, tier, *ids = sys.argv[1:]
d = f"/verif/seeded/{name}"
conf = open(f"{d}/confirm.log").read()
chk = open(f"{d}/checks.log").read()
notes = open(f"{d}/notes.md").read()
caught = {m.group(1): int(m.group(2)) for m in re.finditer(r"== (\S+) \S+ exit=(\d+)", chk)}
suite_ok = "143 passed; 1 failed" in conf and "1 passed; 0 failed" in conf and "6 passed; 0 failed" in conf
demo_ok = re.search(r"demo_with_patch_exit=(\d+)", conf) and re.search(r"demo_with_patch_exit=(\d+)", conf).group(1) != "0" and "demo_without_patch_exit=0" in conf
meta = {
  "name": name, "breaks_property": prop,
  "origin": "independent sub-agent given only the property text and a scratch worktree of /repo",
  "needs_to_manifest": "see notes.md (written by the sub-agent)",
  "confirmed_by_me": {"pinned_suite_passes_with_change (143 lib + 1 api + 6 use_cases; peek_test and the lib.rs doctest are always-fail in BASELINE.json)": bool(suite_ok),
                      "demo_fails_with_change_and_passes_without": bool(demo_ok), "builds_with_feature_verif": "build(verif)=ok" in conf,
                      "commands": f"tools/confirm_mutant.sh <scratch worktree> patch.diff {demo}"},
  "checks_run": {"tier": tier, "command": f"tools/try_mutant.sh patch.diff {tier} " + " ".join(ids), "exit_codes (1 = VIOLATION reported)": caught},
  "caught_by": sorted(k for k, v in caught.items() if v == 1),
}
json.dump(meta, open(f"{d}/meta.json", "w"), indent=1)
print(name, "suite_ok", suite_ok, "demo_ok", bool(demo_ok), "caught_by", meta["caught_by"], "exits", caught)
PY
