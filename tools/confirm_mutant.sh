#!/bin/bash
# Maintenance helper (never run by a check): confirms a seeded change in a scratch worktree of /repo.
#   confirm_mutant.sh <worktree> <patch> <demo-test-name> [extra cargo args for the demo, e.g. --features verif]
# 1. applies the patch, builds with and without --features verif, runs the pinned suite (lib + tests/api + tests/use_cases + doctests)
# 2. runs the demo with the patch (must fail), reverts, runs it again (must pass)
WT="$1"; PATCH="$2"; DEMO="$3"; shift 3
cd "$WT" || exit 2
export CARGO_TARGET_DIR="${CONFIRM_TARGET_DIR:-$WT/target}"
git checkout -q -- src || exit 2
git apply "$PATCH" || { echo "CONFIRM: patch does not apply"; exit 2; }
cargo build --offline --features verif >/dev/null 2>&1 && echo "CONFIRM build(verif)=ok" || echo "CONFIRM build(verif)=FAILED"
cargo test --offline --no-fail-fast --lib --test api --test use_cases > /tmp/confirm_suite.$$ 2>&1
cargo test --offline --no-fail-fast --doc >> /tmp/confirm_suite.$$ 2>&1
grep -E "^test result" /tmp/confirm_suite.$$ | sed 's/; finished.*//' | tr '\n' '|'; echo
grep -E "^test .* FAILED" /tmp/confirm_suite.$$ | tr '\n' '|'; echo
cargo test --offline --test "$DEMO" "$@" > /tmp/confirm_demo_with.$$ 2>&1; W=$?
git checkout -q -- src
cargo test --offline --test "$DEMO" "$@" > /tmp/confirm_demo_without.$$ 2>&1; WO=$?
echo "CONFIRM demo_with_patch_exit=$W ($(grep -E '^test result' /tmp/confirm_demo_with.$$ | sed 's/; finished.*//' | tr '\n' ' ')) demo_without_patch_exit=$WO ($(grep -E '^test result' /tmp/confirm_demo_without.$$ | sed 's/; finished.*//' | tr '\n' ' '))"
rm -f /tmp/confirm_suite.$$ /tmp/confirm_demo_with.$$ /tmp/confirm_demo_without.$$
