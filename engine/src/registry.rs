//! Scenario registry: every E1 scenario is identified by `property / family / rung`.

use crate::mcx::Instance;
use std::sync::Arc;

#[derive(Debug, Clone, Copy, PartialEq, Eq)]
pub enum Tier { Quick, Thorough }
impl Tier {
    pub fn name(self) -> &'static str { match self { Tier::Quick => "quick", Tier::Thorough => "thorough" } }
    pub fn parse(s: &str) -> Option<Tier> { match s { "quick" => Some(Tier::Quick), "thorough" => Some(Tier::Thorough), _ => None } }
}

#[derive(Clone)]
pub struct ScenarioDef {
    pub prop: &'static str,
    /// what is fixed: channel kind, entry point, configuration
    pub family: String,
    /// what grows: numbers of producers / events / ..., e.g. `P1-E3`; compared component-wise
    pub rung: String,
    pub rung_idx: usize,
    pub max_bound: u32,
    pub make: Arc<dyn Fn() -> Instance + Send + Sync>,
}

impl ScenarioDef {
    pub fn id(&self) -> String { format!("{}/{}/{}", self.prop, self.family, self.rung) }
}

/// parses `P1-E3` into [1, 3]
pub fn rung_numbers(rung: &str) -> Vec<i64> {
    rung.split('-').map(|part| part.trim_start_matches(|c: char| !c.is_ascii_digit()).parse::<i64>().unwrap_or(0)).collect()
}

/// `a` dominates `b`: same shape and every component >=
pub fn rung_dominates(a: &str, b: &str) -> bool {
    // script-named rungs (`T2-b`) are not ordered: only the very same rung matches
    if a.chars().any(|c| c.is_ascii_lowercase()) || b.chars().any(|c| c.is_ascii_lowercase()) { return a == b }
    let (x, y) = (rung_numbers(a), rung_numbers(b));
    x.len() == y.len() && x.iter().zip(y.iter()).all(|(p, q)| p >= q)
}

pub fn scenarios(prop: &str, tier: Tier) -> Vec<ScenarioDef> {
    match prop {
        "C01" => { let mut v = crate::c01::scenarios("C01", tier); v.extend(crate::c16::mc_contended_scenarios("C01", tier)); v }
        "C02" => crate::c01::scenarios("C02", tier),
        "C03" => crate::c03::scenarios(tier),
        "C04" => crate::c04::scenarios(tier),
        "C07" => crate::c07::scenarios(tier),
        "C09" => crate::c09::scenarios(tier),
        "C13" => crate::c13::scenarios(tier),
        "C14" => crate::c14::scenarios(tier),
        "C19" => crate::c19::scenarios(tier),
        "C17" => crate::c17::scenarios(tier),
        "C18" => crate::c18::scenarios(tier),
        "C20" => crate::c20::scenarios(tier),
        "C08" => crate::c08::scenarios(tier),
        "C05" => crate::c05::scenarios(tier),
        "C06" => crate::c06e1::scenarios(tier),
        "C16" => crate::c16::scenarios(tier),
        "C10" => crate::c10::scenarios(tier),
        _ => Vec::new(),
    }
}

pub fn seq_configs(prop: &str, tier: Tier) -> Vec<crate::seqx::Config> {
    match prop {
        "C10" => crate::c10::configs(tier),
        "C08" => crate::c08::configs(tier),
        "C13" => crate::c13::configs(tier),
        "C05" => crate::c05core::configs(tier == Tier::Thorough),
        "C16" => crate::c16::configs(tier),
        "C14" => crate::c14seq::configs(tier == Tier::Thorough),
        _ => Vec::new(),
    }
}

pub fn e3_tuples(prop: &str, tier: Tier) -> Vec<crate::asyncx::Tuple> {
    match prop {
        "C11" => crate::c11::tuples("C11", tier),
        "C06" => crate::c06::tuples("C06", tier),
        "C12" => { let mut v = crate::c12::tuples(tier); v.extend(crate::c06::tuples("C12", tier)); v.extend(crate::c11::tuples("C12", tier)); v }
        _ => Vec::new(),
    }
}
