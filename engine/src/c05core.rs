//! C05 core: instrumented payload, channel families and the sequential system (history search). No dependency on the rest of the
//! harness except `seqx`, so that the same histories are also compiled into the AddressSanitizer build (/verif/engine-asan).

use crate::seqx::{Bad, Config, Sys};
use futures::Stream;
use reactive_mutiny::prelude::advanced::*;
use std::collections::{HashMap, VecDeque};
use std::fmt::Debug;
use std::marker::PhantomData;
use std::pin::Pin;
use std::sync::{Arc, Mutex};
use std::task::{Context, Poll};

// ------------------------------------------------------------------------------------------------ instrumented payload

const MAGIC: u32 = 0x5EED_C0DE;
const POISON: u32 = 0xDEAD_DEAD;

#[derive(Default, Debug)]
pub struct Table { pub created: Vec<u32>, pub dropped: HashMap<u32, u32>, pub bad: Vec<String> }
pub type SharedTable = Arc<Mutex<Table>>;

/// a payload with a destructor: every value has an id and reports the run of its destructor to the table it was created with
#[derive(Debug)]
pub struct Tr { pub id: u32, magic: u32, table: Option<SharedTable> }
impl Tr {
    pub fn new(id: u32, table: &SharedTable) -> Self { table.lock().unwrap().created.push(id); Tr { id, magic: MAGIC ^ id, table: Some(table.clone()) } }
    /// the id, if this memory holds a live, uncorrupted value
    pub fn read(&self) -> Result<u32, String> {
        if self.magic == POISON { return Err(format!("payload {} is read after its destructor ran", self.id)) }
        if self.magic != MAGIC ^ self.id { return Err(format!("the storage does not hold a payload (id field {}, magic {:#x})", self.id, self.magic)) }
        Ok(self.id)
    }
}
impl Default for Tr { fn default() -> Self { Tr { id: u32::MAX, magic: MAGIC ^ u32::MAX, table: None } } }
impl Drop for Tr {
    fn drop(&mut self) {
        if self.magic == POISON {
            // the table pointer of a value whose destructor already ran must not be trusted: report through the last known one, if still readable
            if let Some(t) = self.table.as_ref() { if let Ok(mut t) = t.lock() { t.bad.push(format!("the destructor of payload {} ran a second time", self.id)) } }
            return;
        }
        if self.magic != MAGIC ^ self.id { return }   // not a payload: nothing can be said (ASan judges such accesses)
        if let Some(t) = self.table.take() { *t.lock().unwrap().dropped.entry(self.id).or_insert(0) += 1 }
        self.magic = POISON;
    }
}

// ------------------------------------------------------------------------------------------------ handles

/// what a consumer holds: the payload itself (movable channels) or a handle to it
pub trait Hd: Send {
    fn read(&self) -> Result<u32, String>;
    fn addr(&self) -> usize;
    fn try_clone(&self) -> Option<Box<dyn Hd>>;
    /// OgreUnique -> OgreArc
    fn into_shared(self: Box<Self>) -> Result<Box<dyn Hd>, Box<dyn Hd>>;
    fn references(&self) -> Option<u32> { None }
}
impl Hd for Tr {
    fn read(&self) -> Result<u32, String> { Tr::read(self) }
    fn addr(&self) -> usize { 0 }
    fn try_clone(&self) -> Option<Box<dyn Hd>> { None }
    fn into_shared(self: Box<Self>) -> Result<Box<dyn Hd>, Box<dyn Hd>> { Err(self) }
}
impl Hd for Arc<Tr> {
    fn read(&self) -> Result<u32, String> { Tr::read(self) }
    fn addr(&self) -> usize { Arc::as_ptr(self) as usize }
    fn try_clone(&self) -> Option<Box<dyn Hd>> { Some(Box::new(self.clone())) }
    fn into_shared(self: Box<Self>) -> Result<Box<dyn Hd>, Box<dyn Hd>> { Err(self) }
}
impl<A: BoundedOgreAllocator<Tr> + Send + Sync + 'static> Hd for OgreUnique<Tr, A> {
    fn read(&self) -> Result<u32, String> { Tr::read(self) }
    fn addr(&self) -> usize { &**self as *const Tr as usize }
    fn try_clone(&self) -> Option<Box<dyn Hd>> { None }
    fn into_shared(self: Box<Self>) -> Result<Box<dyn Hd>, Box<dyn Hd>> { Ok(Box::new((*self).into_ogre_arc())) }
}
impl<A: BoundedOgreAllocator<Tr> + Send + Sync + 'static> Hd for OgreArc<Tr, A> {
    fn read(&self) -> Result<u32, String> { Tr::read(self) }
    fn addr(&self) -> usize { &**self as *const Tr as usize }
    fn try_clone(&self) -> Option<Box<dyn Hd>> { Some(Box::new(self.clone())) }
    fn into_shared(self: Box<Self>) -> Result<Box<dyn Hd>, Box<dyn Hd>> { Err(self) }
    fn references(&self) -> Option<u32> { Some(self.references_count()) }
}

// ------------------------------------------------------------------------------------------------ channel families

pub trait Fam: 'static {
    type D: Hd + Debug + 'static;
    type C: ChannelProducer<'static, Tr, Self::D> + ChannelCommon<Tr, Self::D> + reactive_mutiny::verif::VerifState + Send + Sync + 'static;
    type S: Stream<Item = Self::D> + Unpin + Send + 'static;
    const MULTI: bool;
    const B: usize;
    /// pooled payload storage (a slot stays taken until the last handle is released)
    const POOLED: bool;
    fn mk() -> Arc<Self::C> { <Self::C as ChannelCommon<Tr, Self::D>>::new("c05") }
    fn open(c: &Arc<Self::C>) -> Self::S;
}
pub struct U<C, const POOLED: bool>(PhantomData<C>);
pub struct Mu<C, const POOLED: bool>(PhantomData<C>);
impl<C, const POOLED: bool> Fam for U<C, POOLED> where C: FullDuplexUniChannel<ItemType = Tr> + reactive_mutiny::verif::VerifState + Send + Sync + 'static, C::DerivedItemType: Hd {
    type D = C::DerivedItemType; type C = C; type S = MutinyStream<'static, Tr, C, C::DerivedItemType>;
    const MULTI: bool = false; const B: usize = <C as FullDuplexUniChannel>::BUFFER_SIZE; const POOLED: bool = POOLED;
    fn open(c: &Arc<C>) -> Self::S { c.create_stream().0 }
}
impl<C, const POOLED: bool> Fam for Mu<C, POOLED> where C: FullDuplexMultiChannel<ItemType = Tr> + reactive_mutiny::verif::VerifState + Send + Sync + 'static, C::DerivedItemType: Hd {
    type D = C::DerivedItemType; type C = C; type S = MutinyStream<'static, Tr, C, C::DerivedItemType>;
    const MULTI: bool = true; const B: usize = <C as FullDuplexMultiChannel>::BUFFER_SIZE; const POOLED: bool = POOLED;
    fn open(c: &Arc<C>) -> Self::S { c.create_stream_for_new_events().0 }
}

pub const KINDS: [&str; 10] = ["uni-MA", "uni-MF", "uni-MC", "uni-ZA", "uni-ZF", "multi-AA", "multi-AF", "multi-AC", "multi-OA", "multi-OF"];

/// calls `$f::<Family>($args)` for the channel kind named `$kind` with BUFFER_SIZE 2 (Uni: one stream; Multi: MAX_STREAMS 2)
#[macro_export]
macro_rules! dispatch_c05 {
    ($kind:expr, $f:ident ( $($args:expr),* )) => {{
        use reactive_mutiny::prelude::advanced::*;
        use $crate::c05core::{Mu, Tr, U};
        match $kind {
            "uni-MA" => $f::<U<ChannelUniMoveAtomic<Tr, 2, 1>, false>>($($args),*), "uni-MF" => $f::<U<ChannelUniMoveFullSync<Tr, 2, 1>, false>>($($args),*), "uni-MC" => $f::<U<ChannelUniMoveCrossbeam<Tr, 2, 1>, false>>($($args),*),
            "uni-ZA" => $f::<U<ChannelUniZeroCopyAtomic<Tr, 2, 1>, true>>($($args),*), "uni-ZF" => $f::<U<ChannelUniZeroCopyFullSync<Tr, 2, 1>, true>>($($args),*),
            "multi-AA" => $f::<Mu<ChannelMultiArcAtomic<Tr, 2, 2>, false>>($($args),*), "multi-AF" => $f::<Mu<ChannelMultiArcFullSync<Tr, 2, 2>, false>>($($args),*), "multi-AC" => $f::<Mu<ChannelMultiArcCrossbeam<Tr, 2, 2>, false>>($($args),*),
            "multi-OA" => $f::<Mu<ChannelMultiOgreArcAtomic<Tr, 2, 2>, true>>($($args),*), "multi-OF" => $f::<Mu<ChannelMultiOgreArcFullSync<Tr, 2, 2>, true>>($($args),*),
            other => panic!("dispatch_c05: {other}"),
        }
    }}
}

pub fn noop_waker() -> std::task::Waker { futures::task::noop_waker() }

// ------------------------------------------------------------------------------------------------ the sequential system

/// ids cycle so that the state space closes; an id is reused only long after its previous bearer was destroyed
const PERIOD: u32 = 12;

pub struct C5Sys<F: Fam> {
    // field order = drop order: handles, then streams, then the channel ("payload handles do not outlive their channel")
    held: Vec<(Box<dyn Hd>, u32)>,
    streams: Vec<Option<F::S>>,
    chan: Arc<F::C>,
    table: SharedTable,
    /// per listener: ids accepted and not yet yielded to it
    fifo: Vec<VecDeque<u32>>,
    /// ids that are done (every copy yielded and released, or handed back on rejection): destructor count must be exactly 1
    finished: Vec<u32>,
    sends: u32,
    listeners: usize,
    /// 0: no reservation API used; 1: ring reservations (movable atomic: sent oldest first, cancelled newest first, no plain send meanwhile); 2: pool reservations
    reserve_mode: u8,
    /// outstanding reservations in reservation order: slot, id of the payload built in it
    reserved: Vec<(*mut Tr, u32)>,
}

impl<F: Fam> C5Sys<F> {
    pub fn new(listeners: usize, reserve_mode: u8) -> Self {
        let chan = F::mk();
        let n = if F::MULTI { listeners } else { 1 };
        let streams = (0..n).map(|_| Some(F::open(&chan))).collect();
        C5Sys { held: Vec::new(), streams, chan, table: Arc::new(Mutex::new(Table::default())), fifo: vec![VecDeque::new(); n], finished: Vec::new(), sends: 0, listeners: n, reserve_mode, reserved: Vec::new() }
    }
    /// the next id in the cycle that nobody has a claim on any more (an id still buffered, held or reserved is never given to a second payload)
    fn next_id(&self) -> u32 {
        let live = self.live();
        (0..PERIOD).map(|k| 1 + (self.sends + k) % PERIOD).find(|id| !live.contains(id)).expect("more live payloads than ids in the cycle")
    }
    /// ids somebody still has a claim on: buffered for a listener or held by the consumer
    fn live(&self) -> Vec<u32> {
        let mut v: Vec<u32> = self.fifo.iter().flat_map(|q| q.iter().copied()).collect();
        v.extend(self.held.iter().map(|h| h.1));
        v.extend(self.reserved.iter().map(|r| r.1));
        v.sort(); v.dedup(); v
    }
    fn occupancy(&self) -> usize {
        if F::POOLED { self.live().len() } else if self.reserve_mode == 1 { self.fifo[0].len() + self.reserved.len() } else if F::MULTI { self.fifo.iter().map(|q| q.len()).max().unwrap_or(0) } else { self.fifo[0].len() }
    }
    fn check(&self, op: &str) -> Result<(), Bad> {
        let t = self.table.lock().unwrap();
        if let Some(b) = t.bad.first() { return Err(("double-destruction".into(), format!("after {op}: {b}"))) }
        for (id, n) in t.dropped.iter() { if *n > 1 { return Err(("double-destruction".into(), format!("after {op}: payload {id} was destroyed {n} times"))) } }
        let live = self.live();
        for id in &live { if t.dropped.get(id).copied().unwrap_or(0) != 0 { return Err(("destroyed-while-referenced".into(), format!("after {op}: payload {id} was destroyed although it is still buffered or a consumer still holds a handle to it"))) } }
        for id in &self.finished { if !live.contains(id) && t.dropped.get(id).copied().unwrap_or(0) != 1 { return Err(("not-destroyed".into(), format!("after {op}: payload {id} was delivered and every handle to it released (or it was handed back), but its destructor ran {} times", t.dropped.get(id).copied().unwrap_or(0)))) } }
        drop(t);
        for (h, id) in &self.held {
            match h.read() { Ok(x) if x == *id => {}, Ok(x) => return Err(("overwritten-while-held".into(), format!("after {op}: a handle to payload {id} now reads payload {x}"))), Err(e) => return Err(("destroyed-while-held".into(), format!("after {op}: handle to payload {id}: {e}"))) }
        }
        for (p, id) in &self.reserved {
            match unsafe { (**p).read() } { Ok(x) if x == *id => {}, other => return Err(("reserved-slot-changed".into(), format!("after {op}: the reserved slot holding payload {id} now reads {:?}", other))) }
        }
        // distinct payloads held at the same time live in distinct storage
        if F::POOLED || F::MULTI {
            for (i, (h, id)) in self.held.iter().enumerate() { for (g, jd) in self.held.iter().skip(i + 1) { if id != jd && h.addr() == g.addr() { return Err(("storage-shared".into(), format!("after {op}: payloads {id} and {jd} are held at the same time in the same storage"))) } } }
        }
        Ok(())
    }
    fn forget_id(&mut self, id: u32) {
        // a new bearer of a recycled id: forget what the table knows about the previous one
        let mut t = self.table.lock().unwrap();
        t.dropped.remove(&id);
        self.finished.retain(|x| *x != id);
    }
    fn poll(&mut self, l: usize) -> Poll<Option<F::D>> {
        let w = noop_waker();
        let mut cx = Context::from_waker(&w);
        Pin::new(self.streams[l].as_mut().unwrap()).poll_next(&mut cx)
    }
    fn maybe_finished(&mut self, id: u32) { if !self.live().contains(&id) && !self.finished.contains(&id) { self.finished.push(id) } }
}

impl<F: Fam> Sys for C5Sys<F> {
    fn enabled(&self) -> Vec<String> {
        let mut v = vec!["send".to_string(), "send_with".to_string()];
        if self.reserve_mode == 1 && !self.reserved.is_empty() { v.clear() }
        // the Arc Multi channels wait (documented) when a listener's queue is full: stay below
        if F::MULTI && !F::POOLED && self.fifo.iter().any(|q| q.len() + 1 >= F::B) { v.clear() }
        // (payloads moved out / Arc handles do not take channel capacity: bound what the consumer keeps)
        if self.held.len() < 4 { for l in 0..self.listeners { if self.streams[l].is_some() { v.push(format!("recv #{l}")) } } }
        for k in 0..self.held.len() { v.push(format!("release #{k}")) }
        for k in 0..self.held.len() { if self.held[k].0.try_clone().is_some() && self.held.len() < 4 { v.push(format!("clone #{k}")) } }
        if !F::MULTI && F::POOLED { for k in 0..self.held.len() { if self.held[k].0.references().is_none() { v.push(format!("into_shared #{k}")) } } }
        if F::MULTI { for l in 0..self.listeners { if self.streams[l].is_some() { v.push(format!("drop listener #{l}")) } } }
        if self.reserve_mode != 0 {
            if self.reserved.len() < 2 { v.push("reserve".to_string()) }
            for i in 0..self.reserved.len() { if self.reserve_mode == 2 || i == 0 { v.push(format!("send_reserved #{i}")) } }
            for i in 0..self.reserved.len() { if self.reserve_mode == 2 || i + 1 == self.reserved.len() { v.push(format!("cancel #{i}")) } }
        }
        v
    }

    fn apply(&mut self, choice: usize) -> Result<String, Bad> {
        let op = self.enabled()[choice].clone();
        let obs;
        if op == "send" || op == "send_with" {
            let id = self.next_id();
            self.forget_id(id);
            let full = self.occupancy() >= F::B;
            let accepted = if op == "send" {
                match self.chan.send(Tr::new(id, &self.table)) {
                    keen_retry::RetryResult::Ok { .. } => true,
                    keen_retry::RetryResult::Transient { input, .. } | keen_retry::RetryResult::Fatal { input, .. } => {
                        if input.read() != Ok(id) { return Err(("bad-reject".into(), format!("a rejected send handed back something that is not the payload {id}"))) }
                        drop(input);
                        false
                    }
                }
            } else {
                let table = self.table.clone();
                matches!(self.chan.send_with(move |slot| unsafe { std::ptr::write(slot, Tr::new(id, &table)) }), keen_retry::RetryResult::Ok { .. })
            };
            if accepted != !full { return Err((if accepted { "accepted-beyond-capacity" } else { "rejected-with-room" }.into(), format!("{op} of payload {id} was {} with {} of {} slots taken", if accepted { "accepted" } else { "rejected" }, self.occupancy(), F::B))) }
            // a rejected send leaves no trace in the model: the id is taken again by the next attempt
            if accepted {
                self.sends += 1;
                let mut any = false;
                for l in 0..self.listeners { if self.streams[l].is_some() { self.fifo[l].push_back(id); any = true } }
                if !any { self.finished.push(id) }
            } else if op == "send" { self.finished.push(id) }
            obs = format!("{op} {id} -> {}", if accepted { "ok" } else { "full" });
        } else if let Some(l) = op.strip_prefix("recv #") {
            let l: usize = l.parse().unwrap();
            let got = self.poll(l);
            let want = self.fifo[l].front().copied();
            match (got, want) {
                (Poll::Ready(Some(item)), Some(w)) => {
                    match item.read() { Ok(x) if x == w => {}, Ok(x) => return Err(("wrong-event".into(), format!("listener #{l} yielded payload {x} where {w} was next"))), Err(e) => return Err(("delivered-destroyed".into(), format!("listener #{l} was handed payload {w} in a bad state: {e}"))) }
                    if F::POOLED && self.held.iter().any(|(h, id)| *id != w && h.addr() == item.addr()) { return Err(("slot-reused-while-held".into(), format!("payload {w} arrived in storage a handle still held by a consumer points to"))) }
                    self.fifo[l].pop_front();
                    self.held.push((Box::new(item), w));
                    obs = format!("got {w}");
                }
                (Poll::Ready(Some(item)), None) => return Err(("alien-event".into(), format!("listener #{l} yielded {:?} although nothing is outstanding for it", item.read()))),
                (Poll::Pending, None) => obs = "pending".into(),
                (Poll::Ready(None), None) => return Err(("ended".into(), format!("listener #{l} answered end-of-stream"))),
                (_, Some(w)) => return Err(("missed-event".into(), format!("payload {w} was accepted but listener #{l} finds nothing"))),
            }
        } else if let Some(k) = op.strip_prefix("release #") {
            let k: usize = k.parse().unwrap();
            let (h, id) = self.held.remove(k);
            drop(h);
            self.maybe_finished(id);
            obs = format!("released {id}");
        } else if let Some(k) = op.strip_prefix("clone #") {
            let k: usize = k.parse().unwrap();
            let c = self.held[k].0.try_clone().unwrap();
            let id = self.held[k].1;
            self.held.push((c, id));
            obs = format!("cloned {id}");
        } else if let Some(k) = op.strip_prefix("into_shared #") {
            let k: usize = k.parse().unwrap();
            let (h, id) = self.held.remove(k);
            let h = match h.into_shared() { Ok(h) | Err(h) => h };
            self.held.insert(k, (h, id));
            obs = format!("shared {id}");
        } else if op == "reserve" {
            let id = self.next_id();
            self.forget_id(id);
            let full = self.occupancy() >= F::B;
            match self.chan.reserve_slot() {
                Some(slot) => {
                    if full { return Err(("accepted-beyond-capacity".into(), format!("reserve_slot succeeded with {} of {} slots taken", self.occupancy(), F::B))) }
                    if self.held.iter().any(|(h, _)| h.addr() == slot as *mut Tr as usize) { return Err(("slot-reused-while-held".into(), "reserve_slot handed out storage a consumer still holds a handle to".into())) }
                    unsafe { std::ptr::write(slot, Tr::new(id, &self.table)) };
                    self.sends += 1;
                    self.reserved.push((slot as *mut Tr, id));
                    obs = format!("reserved {id}");
                }
                None => { if !full { return Err(("rejected-with-room".into(), format!("reserve_slot answered None with {} of {} slots taken", self.occupancy(), F::B))) } obs = "reserve -> full".into() }
            }
        } else if let Some(i) = op.strip_prefix("send_reserved #") {
            let i: usize = i.parse().unwrap();
            let (p, id) = self.reserved[i];
            if self.chan.try_send_reserved(unsafe { &mut *p }) {
                self.reserved.remove(i);
                let mut any = false;
                for l in 0..self.listeners { if self.streams[l].is_some() { self.fifo[l].push_back(id); any = true } }
                if !any { self.finished.push(id) }
                obs = format!("sent reserved {id}");
            } else {
                // "not sent: the reservation is still yours" -- it stays outstanding (and must stay intact)
                obs = format!("send reserved {id} -> refused");
            }
        } else if let Some(i) = op.strip_prefix("cancel #") {
            let i: usize = i.parse().unwrap();
            let (p, id) = self.reserved[i];
            if self.chan.try_cancel_slot_reserve(unsafe { &mut *p }) {
                self.reserved.remove(i);
                // never delivered: destroyed at most once (the pool destroys it, the ring leaves it to be overwritten)
                obs = format!("cancelled {id}");
            } else { obs = format!("cancel {id} -> refused"); }
        } else if let Some(l) = op.strip_prefix("drop listener #") {
            let l: usize = l.parse().unwrap();
            self.streams[l] = None;
            let gone: Vec<u32> = self.fifo[l].drain(..).collect();
            for id in gone { self.maybe_finished(id) }
            obs = "listener dropped".into();
        } else { unreachable!("{op}") }
        self.check(&op)?;
        Ok(obs)
    }

    fn key(&self) -> Vec<u64> {
        // payload identities matter (destruction is per id): the model state is the key; the objects' counters follow from the history
        let mut k = vec![(self.sends % PERIOD) as u64];
        for (l, q) in self.fifo.iter().enumerate() { k.push(u64::MAX - l as u64); k.push(self.streams[l].is_some() as u64); k.extend(q.iter().map(|x| *x as u64)) }
        k.push(u64::MAX - 10);
        for (h, id) in &self.held { k.push(*id as u64); k.push(h.references().map(|r| r as u64 + 100).unwrap_or(0) + h.try_clone().is_some() as u64) }
        k.push(u64::MAX - 11);
        k.extend(self.reserved.iter().map(|r| r.1 as u64));
        k.push(u64::MAX - 12);
        // the objects' internal bookkeeping (ring positions relative to head, free lists, live-stream lists)
        reactive_mutiny::verif::VerifState::verif_state(&*self.chan, &mut k);
        k
    }

    /// teardown with whatever is buffered / held: handles first, then the streams, then the channel; every payload ever created must
    /// have been destroyed exactly once, nothing twice, and (sanitizer build) no freed memory touched
    fn epilogue(&mut self) -> Result<(), Bad> {
        while let Some((p, _)) = self.reserved.pop() { let _ = self.chan.try_cancel_slot_reserve(unsafe { &mut *p }); }
        let outstanding = self.live();
        self.held.clear();
        for s in self.streams.iter_mut() { *s = None }
        // replace the channel by a fresh one so that the old one is torn down now
        let old = std::mem::replace(&mut self.chan, F::mk());
        if Arc::strong_count(&old) != 1 { return Err(("engine".into(), "the channel is still referenced at teardown".into())) }
        drop(old);
        let t = self.table.lock().unwrap();
        if let Some(b) = t.bad.first() { return Err(("double-destruction".into(), format!("at teardown: {b}"))) }
        // the handles the consumer held were released before the teardown: those payloads are "delivered and every handle released" unless a
        // listener's queue still held a copy; payloads never delivered may or may not be destroyed by the teardown (at most once)
        let undelivered: Vec<u32> = self.fifo.iter().flat_map(|q| q.iter().copied()).collect();
        for id in outstanding.iter().chain(self.finished.iter()) {
            let n = t.dropped.get(id).copied().unwrap_or(0);
            if n > 1 { return Err(("double-destruction".into(), format!("after the channel was torn down, payload {id} has been destroyed {n} times"))) }
            if n == 0 && !undelivered.contains(id) { return Err(("not-destroyed".into(), format!("payload {id} was delivered and every handle to it released before the channel was torn down (handles first, then listeners, then the channel), yet its destructor never ran"))) }
        }
        Ok(())
    }
}

fn build<F: Fam>(listeners: usize, reserve_mode: u8) -> Box<dyn Sys> { Box::new(C5Sys::<F>::new(listeners, reserve_mode)) }

pub fn configs(thorough: bool) -> Vec<Config> {
    let mut v = Vec::new();
    for kind in KINDS {
        let multi = kind.starts_with("multi");
        for listeners in if multi { vec![1usize, 2] } else { vec![1] } {
            let depth = match (thorough, multi && listeners == 2) { (false, false) => 9, (false, true) => 7, (true, false) => 13, (true, true) => 10 };
            v.push(Config { name: format!("{kind}/listeners{listeners}"), max_depth: depth, build: Box::new(move || crate::dispatch_c05!(kind, build(listeners, 0))) });
            // the reservation API, where the channel has it (listeners may all be gone when a reserved slot is sent)
            let mode = match kind { "uni-MA" => 1u8, "uni-ZA" | "uni-ZF" | "multi-OA" | "multi-OF" => 2, _ => 0 };
            if mode != 0 && listeners == 1 {
                v.push(Config { name: format!("{kind}/listeners{listeners}/reserve"), max_depth: depth.min(if thorough { 9 } else { 7 }), build: Box::new(move || crate::dispatch_c05!(kind, build(listeners, mode))) });
            }
        }
    }
    v
}
