//! Master / worker fan-out for E1, verdict against the known-findings file, evidence writer.

use crate::mcx;
use crate::registry::{self, rung_dominates, ScenarioDef, Tier};
use serde_json::{json, Map, Value};
use std::collections::{BTreeMap, HashSet, VecDeque};
use std::io::{BufRead, BufReader, Write};
use std::process::{Command, Stdio};
use std::sync::{Arc, Mutex};
use std::time::{Duration, Instant};

pub const VERIF_DIR: &str = "/verif";

pub fn seed() -> i64 { std::env::var("VERIF_SEED").ok().and_then(|s| s.parse().ok()).unwrap_or(0) }

#[derive(Debug, Clone)]
pub struct Viol {
    pub family: String,
    pub rung: String,
    pub kind: String,
    pub detail: String,
    /// everything needed to re-execute
    pub replay: Value,
}

pub struct Report {
    pub prop: String,
    pub tier: Tier,
    pub states: u64,
    pub transitions: u64,
    pub traces: u64,
    pub samples: Vec<Value>,
    pub extra: Map<String, Value>,
    pub exhaustive: bool,
    pub violations: Vec<Viol>,
    pub engine_errors: Vec<String>,
    pub assumptions: Vec<String>,
    pub t0: Instant,
}

#[derive(Debug, Clone)]
struct Known { prop: String, family: String, kind: String, min_rung: String, text: String }

fn load_known() -> Vec<Known> {
    let path = format!("{VERIF_DIR}/known_findings.txt");
    let Ok(s) = std::fs::read_to_string(&path) else { return Vec::new() };
    let mut v = Vec::new();
    for line in s.lines() {
        let line = line.trim();
        if !line.starts_with("finding:") { continue }
        let mut k = Known { prop: String::new(), family: String::new(), kind: String::new(), min_rung: String::new(), text: String::new() };
        let rest = &line["finding:".len()..];
        let mut words = rest.split_whitespace().peekable();
        let mut text = Vec::new();
        while let Some(w) = words.next() {
            if let Some(x) = w.strip_prefix("property=") { k.prop = x.into() }
            else if let Some(x) = w.strip_prefix("family=") { k.family = x.into() }
            else if let Some(x) = w.strip_prefix("kind=") { k.kind = x.into() }
            else if let Some(x) = w.strip_prefix("min_rung=") { k.min_rung = x.into() }
            else { text.push(w) }
        }
        k.text = text.join(" ");
        v.push(k);
    }
    v
}

/// Matches violations against the known findings, writes replays + evidence, prints the verdict lines. Returns the exit code.
pub fn finish(mut rep: Report) -> i32 {
    let known = load_known();
    let wall = rep.t0.elapsed().as_secs_f64();
    let mut unknown: Vec<&Viol> = Vec::new();
    let mut reproduced: BTreeMap<String, (String, usize)> = BTreeMap::new();
    for v in &rep.violations {
        let k = known.iter().find(|k| k.prop == rep.prop && k.family == v.family && k.kind == v.kind && (k.min_rung.is_empty() || rung_dominates(&v.rung, &k.min_rung)));
        match k {
            Some(k) => {
                let key = format!("family={} kind={} min_rung={}", k.family, k.kind, k.min_rung);
                let e = reproduced.entry(key).or_insert((k.text.clone(), 0));
                e.1 += 1;
            }
            None => unknown.push(v),
        }
    }
    // replays for unknown violations: one per (family, kind), the smallest rung first
    let mut printed: HashSet<(String, String)> = HashSet::new();
    let mut violation_lines = Vec::new();
    let dir = format!("{VERIF_DIR}/replays/{}", rep.prop);
    for v in &unknown {
        // one line per (family, kind) -- the smallest failing rung; VH_ALL_RUNGS=1 lists every failing rung (maintenance)
        let key_rung = if std::env::var_os("VH_ALL_RUNGS").is_some() { v.rung.clone() } else { String::new() };
        if !printed.insert((v.family.clone(), format!("{}@{}", v.kind, key_rung))) { continue }
        let _ = std::fs::create_dir_all(&dir);
        let sig = format!("{}__{}__{}", v.family, v.rung, v.kind).replace('/', "_");
        let path = format!("{dir}/{sig}.json");
        let mut r = v.replay.clone();
        if let Some(o) = r.as_object_mut() {
            o.insert("property".into(), json!(rep.prop));
            o.insert("family".into(), json!(v.family));
            o.insert("rung".into(), json!(v.rung));
            o.insert("kind".into(), json!(v.kind));
            o.insert("detail".into(), json!(v.detail));
        }
        let _ = std::fs::write(&path, serde_json::to_string_pretty(&r).unwrap());
        violation_lines.push(format!("VIOLATION property={} replay={} signature={}/{}/{}@{} -- {}", rep.prop, path, rep.prop, v.family, v.kind, v.rung, v.detail));
    }
    for (key, (text, n)) in &reproduced {
        println!("KNOWN-FINDING: property={} {} {} [{} violating execution(s) reported]", rep.prop, key, text, n);
    }
    for l in &violation_lines { println!("{l}") }
    for e in &rep.engine_errors { println!("ENGINE-ERROR: property={} {}", rep.prop, e) }

    // evidence
    let mut cov = Map::new();
    cov.insert("states".into(), json!(rep.states.max(1)));
    cov.insert("transitions".into(), json!(rep.transitions.max(1)));
    cov.insert("traces_validated_against_impl".into(), json!(rep.traces));
    if rep.samples.is_empty() { rep.samples.push(json!("<no sample recorded>")) }
    cov.insert("samples".into(), Value::Array(rep.samples.clone()));
    cov.insert("exhaustive".into(), json!(rep.exhaustive));
    cov.insert("known_findings_reproduced".into(), json!(reproduced.keys().collect::<Vec<_>>()));
    cov.insert("engine_errors".into(), json!(rep.engine_errors));
    for (k, v) in rep.extra.iter() { cov.insert(k.clone(), v.clone()); }
    let ev = json!({
        "property_id": rep.prop,
        "tier": rep.tier.name(),
        "seed": seed(),
        "level": "model_checking",
        "coverage": Value::Object(cov),
        "assumptions": rep.assumptions,
        "wall_s": wall,
        "violations": violation_lines.len(),
    });
    let _ = std::fs::create_dir_all(format!("{VERIF_DIR}/evidence"));
    // maintenance runs against seeded changes (tools/try_mutant.sh) must not overwrite the evidence of the real tree
    let evpath = if std::env::var_os("VH_NO_EVIDENCE").is_some() { let _ = std::fs::create_dir_all(format!("{VERIF_DIR}/target/scratch-evidence")); format!("{VERIF_DIR}/target/scratch-evidence/{}.json", rep.prop) }
                 else { format!("{VERIF_DIR}/evidence/{}.json", rep.prop) };
    if let Err(e) = std::fs::write(&evpath, serde_json::to_string_pretty(&ev).unwrap()) {
        println!("ENGINE-ERROR: cannot write {evpath}: {e}");
        return 2;
    }
    println!("SUMMARY property={} tier={} states={} transitions={} traces={} exhaustive={} known={} violations={} engine_errors={} wall_s={:.1}",
             rep.prop, rep.tier.name(), rep.states, rep.transitions, rep.traces, rep.exhaustive, reproduced.len(), violation_lines.len(), rep.engine_errors.len(), wall);
    if !violation_lines.is_empty() { 1 } else if !rep.engine_errors.is_empty() { 2 } else { 0 }
}

// ------------------------------------------------------------------------------------------------ E1 master

#[derive(Debug, Clone)]
struct Job { def_idx: usize, bound: u32, shard: usize, nshards: usize }

#[derive(Debug, Default, Clone)]
struct JobResult {
    schedules: u64, steps: u64, points: u64, max_points: u64,
    terminals: [u64; 4],
    hashes: Vec<u64>,
    capped: bool,
    samples: Vec<String>,
    found: Vec<(String, String, Vec<u8>, u32)>,
    error: Option<String>,
    crashed: Option<String>,
}

fn wall_cap(tier: Tier) -> Duration {
    let def = match tier { Tier::Quick => 45, Tier::Thorough => 600 };
    Duration::from_secs(std::env::var("VH_WALL_CAP_S").ok().and_then(|s| s.parse().ok()).unwrap_or(def))
}

fn nworkers() -> usize {
    std::env::var("VH_WORKERS").ok().and_then(|s| s.parse().ok()).unwrap_or_else(|| std::thread::available_parallelism().map(|n| n.get()).unwrap_or(4).min(16))
}

pub fn run(prop: &str, tier: Tier) -> i32 {
    let t0 = Instant::now();
    // last line of defence against a subject that never returns inside an engine that runs it in-process (E2, E3): no verdict, exit 2
    {
        let (prop, limit) = (prop.to_string(), Duration::from_secs(std::env::var("VH_HARD_LIMIT_S").ok().and_then(|s| s.parse().ok()).unwrap_or(match tier { Tier::Quick => 900, Tier::Thorough => 7200 })));
        std::thread::spawn(move || {
            std::thread::sleep(limit);
            println!("ENGINE-ERROR: property={prop} the run did not end within {} s (an operation of the subject never returned, or the machine is overloaded); no verdict", limit.as_secs());
            let _ = std::io::stdout().flush();
            std::process::exit(2);
        });
    }
    let mut defs = registry::scenarios(prop, tier);
    let mut cfgs = registry::seq_configs(prop, tier);
    // maintenance: VH_ONLY=<substring> restricts the run to matching scenarios / configurations
    if let Ok(only) = std::env::var("VH_ONLY") { defs.retain(|d| d.id().contains(&only)); cfgs.retain(|c| c.name.contains(&only)); }
    let mut e3 = registry::e3_tuples(prop, tier);
    if let Ok(only) = std::env::var("VH_ONLY") { e3.retain(|t| format!("{}/{}", t.family, t.rung).contains(&only)); }
    if defs.is_empty() && cfgs.is_empty() && e3.is_empty() && prop != "C15" {
        println!("ENGINE-ERROR: property={prop} has no scenarios registered");
        return 2;
    }
    if prop == "C15" {
        let mut rep = empty_report(prop, tier, t0);
        crate::c15::run(tier, &mut rep);
        return finish(rep);
    }
    let mut rep = if !defs.is_empty() { run_e1(prop, tier, defs, t0) } else { empty_report(prop, tier, t0) };
    if !cfgs.is_empty() {
        quiet_panics();
        let (cap, max_states) = match tier { Tier::Quick => (40, 400_000), Tier::Thorough => (1200, 5_000_000) };
        rep.extra.insert("engine_seqx".into(), json!("E2 seqx: explicit-state BFS over histories of the real object, deduplicated on internal bookkeeping + reference model"));
        crate::seqrun::run_configs(prop, tier, cfgs, cap, max_states, &mut rep);
    }
    if prop == "C05" { run_asan(tier, &mut rep) }
    if !e3.is_empty() {
        let cap = Duration::from_secs(std::env::var("VH_WALL_CAP_S").ok().and_then(|s| s.parse().ok()).unwrap_or(match tier { Tier::Quick => 45, Tier::Thorough => 1500 }));
        let had_e1 = rep.traces > 0;
        let keep = (rep.extra.get("engine").cloned(), rep.assumptions.clone());
        crate::asyncx::run_tuples(prop, tier, e3, cap, &mut rep);
        if had_e1 {
            // both engines ran: keep both descriptions
            if let Some(e) = keep.0 { let e3name = rep.extra.get("engine").cloned().unwrap_or_default(); rep.extra.insert("engine".into(), json!([e, e3name])); }
            let mut a = keep.1; a.extend(rep.assumptions.drain(..)); rep.assumptions = a;
        }
    }
    finish(rep)
}

/// C05: the same histories in the AddressSanitizer build (`vha`), one process per configuration
fn run_asan(tier: Tier, rep: &mut Report) {
    let bin = std::env::var("VH_ASAN_BIN").unwrap_or_else(|_| format!("{VERIF_DIR}/target-asan/x86_64-unknown-linux-gnu/release/vha"));
    if !std::path::Path::new(&bin).exists() { rep.engine_errors.push(format!("the sanitizer build {bin} is missing")); return }
    let names: Vec<String> = crate::c05core::configs(tier == Tier::Thorough).into_iter().map(|c| c.name).collect();
    let queue = Arc::new(Mutex::new(names.into_iter().collect::<VecDeque<String>>()));
    let results: Arc<Mutex<Vec<(String, Option<i32>, String, String, String)>>> = Arc::new(Mutex::new(Vec::new()));
    let mut handles = Vec::new();
    for w in 0..nworkers() {
        let (queue, results, bin) = (queue.clone(), results.clone(), bin.clone());
        let tier_name = tier.name();
        handles.push(std::thread::spawn(move || loop {
            let Some(name) = queue.lock().unwrap().pop_front() else { break };
            let marker = format!("{}/C05-asan-{}-{}.marker", marker_dir(), std::process::id(), w);
            let out = Command::new(&bin).args(["explore", tier_name, &name, &marker]).env("ASAN_OPTIONS", "detect_leaks=0:abort_on_error=0:exitcode=66").output();
            let (code, so, se) = match out { Ok(o) => (o.status.code(), String::from_utf8_lossy(&o.stdout).to_string(), String::from_utf8_lossy(&o.stderr).to_string()), Err(e) => (Some(-1), String::new(), format!("cannot run {bin}: {e}")) };
            let hist = std::fs::read_to_string(&marker).unwrap_or_default().lines().next().unwrap_or("").to_string();
            let _ = std::fs::remove_file(&marker);
            results.lock().unwrap().push((name, code, so, se, hist));
        }));
    }
    for h in handles { let _ = h.join(); }
    let mut per = Vec::new();
    for (name, code, so, se, hist) in results.lock().unwrap().drain(..) {
        match code {
            Some(0) | Some(3) => {
                let v: Value = so.lines().rev().find(|l| l.starts_with('{')).and_then(|l| serde_json::from_str(l).ok()).unwrap_or(json!({}));
                rep.states += v["states"].as_u64().unwrap_or(0); rep.transitions += v["transitions"].as_u64().unwrap_or(0); rep.traces += v["replays"].as_u64().unwrap_or(0);
                if v["capped"].as_bool().unwrap_or(false) { rep.exhaustive = false }
                per.push(json!({"config": name, "states": v["states"], "histories_replayed": v["replays"], "depth": v["depth"], "capped": v["capped"], "model_disagreements_seen_too": v["model_disagreements"]}));
            }
            _ => {
                // the sanitizer stopped the process (or it crashed): the history being executed is the counterexample
                let what = se.lines().find(|l| l.contains("AddressSanitizer") || l.contains("ERROR")).unwrap_or("the process died").trim().to_string();
                let at = se.lines().filter(|l| l.trim_start().starts_with('#')).take(6).map(|l| l.trim().to_string()).collect::<Vec<_>>().join(" | ");
                let choices: Vec<u64> = hist.trim_matches(|c| c == '[' || c == ']').split(',').filter_map(|x| x.trim().parse().ok()).collect();
                rep.violations.push(Viol { family: name.clone(), rung: format!("D{}", choices.len()), kind: "sanitizer-report".into(),
                    detail: format!("memory touched after it was freed (or otherwise invalid) while executing the history with choices {hist} (+ teardown): {what} -- {at}"),
                    replay: json!({"engine": "asan", "tier": tier.name(), "config": name, "choices": choices}) });
            }
        }
    }
    per.sort_by_key(|p| p["config"].as_str().unwrap_or("").to_string());
    rep.extra.insert("asan_configs".into(), Value::Array(per));
    rep.extra.insert("asan".into(), json!("the same breadth-first search over histories (seqx.rs + c05core.rs) compiled with -Zsanitizer=address; a report aborts the process and is attributed to the history recorded just before"));
}

pub fn empty_report(prop: &str, tier: Tier, t0: Instant) -> Report {
    Report { prop: prop.into(), tier, states: 0, transitions: 0, traces: 0, samples: Vec::new(), extra: Map::new(), exhaustive: true,
             violations: Vec::new(), engine_errors: Vec::new(),
             assumptions: vec!["sequential histories through the public API of the real objects; trusted: rustc, std, crossbeam-channel, the reference models, the seqx engine".into()], t0 }
}

/// panics of the subject are caught and judged by the engines; keep stderr clean
pub fn quiet_panics() {
    std::panic::set_hook(Box::new(|info| {
        if std::env::var_os("VH_SHOW_PANICS").is_some() { eprintln!("panic: {info}") }
    }));
}

fn run_e1(prop: &str, tier: Tier, defs: Vec<ScenarioDef>, t0: Instant) -> Report {
    let deadline = t0 + wall_cap(tier);
    let max_bound = defs.iter().map(|d| d.max_bound).max().unwrap();
    let exe = std::env::current_exe().unwrap();
    let results: Arc<Mutex<Vec<(Job, JobResult)>>> = Arc::new(Mutex::new(Vec::new()));
    let mut bound_completed: i64 = -1;
    let mut exhaustive = true;
    let mut per_bound: Vec<Value> = Vec::new();
    let mut hit_cap = false;

    for bound in 0..=max_bound {
        if Instant::now() > deadline { hit_cap = true; break }
        let mut queue: VecDeque<Job> = VecDeque::new();
        for (i, d) in defs.iter().enumerate() {
            if d.max_bound < bound { continue }
            let nshards = match bound { 0 | 1 => 1, 2 => 2, _ => 8 };
            for shard in 0..nshards { queue.push_back(Job { def_idx: i, bound, shard, nshards }) }
        }
        let njobs = queue.len();
        let queue = Arc::new(Mutex::new(queue));
        let mut threads = Vec::new();
        for w in 0..nworkers().min(njobs.max(1)) {
            let (queue, results, exe) = (queue.clone(), results.clone(), exe.clone());
            let prop = prop.to_string();
            let ids: Vec<String> = defs.iter().map(|d| d.id()).collect();
            threads.push(std::thread::spawn(move || worker_driver(w, &exe, &prop, tier, &ids, queue, results, deadline)));
        }
        for t in threads { let _ = t.join(); }
        let res = results.lock().unwrap();
        let this: Vec<&(Job, JobResult)> = res.iter().filter(|(j, _)| j.bound == bound).collect();
        let done = this.len() == njobs && this.iter().all(|(_, r)| !r.capped && r.error.is_none() && r.crashed.is_none());
        let scheds: u64 = this.iter().map(|(_, r)| r.schedules).sum();
        per_bound.push(json!({"bound": bound, "jobs": njobs, "jobs_finished": this.len(), "schedules": scheds, "complete": done}));
        if done { bound_completed = bound as i64 } else { exhaustive = false; hit_cap = true; break }
    }
    let res = results.lock().unwrap();

    // aggregate
    let mut rep = Report {
        prop: prop.into(), tier, states: 0, transitions: 0, traces: 0, samples: Vec::new(), extra: Map::new(), exhaustive,
        violations: Vec::new(), engine_errors: Vec::new(),
        assumptions: vec![
            "sequentially consistent interleavings at the granularity of the hooked operations (every protocol atomic, every plain shared access listed in DESIGN.md §1); weak-memory effects and torn plain accesses are not modelled".into(),
            "compare_exchange_weak never fails spuriously".into(),
            "trusted: rustc, std, crossbeam-channel, parking_lot, tokio current-thread runtime with paused clock, futures combinators, the mcx engine".into(),
        ],
        t0,
    };
    let mut hashes: HashSet<u64> = HashSet::new();
    let mut terminals = [0u64; 4];
    let mut per_scen: BTreeMap<String, (u64, u32)> = BTreeMap::new();
    let mut max_points = 0;
    for (job, r) in res.iter() {
        rep.states += r.points + r.schedules;
        rep.transitions += r.steps;
        rep.traces += r.schedules;
        max_points = max_points.max(r.max_points);
        for i in 0..4 { terminals[i] += r.terminals[i] }
        for h in &r.hashes { hashes.insert(*h); }
        let d = &defs[job.def_idx];
        let e = per_scen.entry(d.id()).or_insert((0, 0));
        if job.bound >= e.1 { if job.bound > e.1 { e.0 = 0 } e.1 = job.bound; e.0 += r.schedules; }
        if rep.samples.len() < 6 {
            for s in r.samples.iter().take(1) { rep.samples.push(json!({"scenario": d.id(), "bound": job.bound, "execution": s})) }
        }
        if let Some(e) = &r.error { rep.engine_errors.push(format!("{}: {}", d.id(), e)) }
        if let Some(c) = &r.crashed {
            // a crash of the subject inside a controlled execution is a memory-safety / abort violation of the property
            // (a hang: the watchdog of the worker aborted an execution that did not end)
            rep.violations.push(Viol { family: d.family.clone(), rung: d.rung.clone(), kind: if c.contains("HUNG ") { "hang" } else { "crash" }.into(), detail: c.clone(),
                                       replay: json!({"engine": "mcx", "scenario": d.id(), "tier": tier.name(), "note": c}) });
        }
        for (kind, detail, choices, b) in &r.found {
            rep.violations.push(Viol { family: d.family.clone(), rung: d.rung.clone(), kind: kind.clone(), detail: detail.clone(),
                                       replay: json!({"engine": "mcx", "scenario": d.id(), "tier": tier.name(), "choices": choices, "preemptions": b}) });
        }
    }
    // smallest rung first so that the first replay written per (family, kind) is the minimal one
    rep.violations.sort_by(|a, b| (a.family.clone(), a.kind.clone(), registry::rung_numbers(&a.rung).iter().sum::<i64>(), a.replay["preemptions"].as_u64())
                               .cmp(&(b.family.clone(), b.kind.clone(), registry::rung_numbers(&b.rung).iter().sum::<i64>(), b.replay["preemptions"].as_u64())));
    // determinism self-check of what is about to be reported as new
    rep.extra.insert("engine".into(), json!("E1 mcx: stateless DFS over schedules of the real code, preemption-bounded"));
    rep.extra.insert("scenarios".into(), json!(defs.len()));
    rep.extra.insert("schedules".into(), json!(rep.traces));
    rep.extra.insert("max_preemption_bound_requested".into(), json!(max_bound));
    rep.extra.insert("max_preemption_bound_completed".into(), json!(bound_completed));
    rep.extra.insert("per_bound".into(), Value::Array(per_bound));
    rep.extra.insert("distinct_outcomes".into(), json!(hashes.len()));
    rep.extra.insert("terminal_states".into(), json!({"done": terminals[0], "quiescent": terminals[1], "stall": terminals[2], "runaway": terminals[3]}));
    rep.extra.insert("longest_execution_points".into(), json!(max_points));
    rep.extra.insert("wall_cap_hit".into(), json!(hit_cap));
    let scen_list: Vec<Value> = per_scen.iter().map(|(k, (n, b))| json!({"scenario": k, "schedules_at_highest_bound": n, "highest_bound": b})).collect();
    rep.extra.insert("per_scenario".into(), Value::Array(scen_list));
    if hashes.len() <= 1 && rep.traces > 1 {
        rep.engine_errors.push("vacuity alarm: every execution produced the same observation log".into());
    }
    if bound_completed < 0 {
        rep.engine_errors.push("not even bound 0 was completed within the wall-clock cap".into());
    }
    drop(res);
    rep
}

fn marker_dir() -> String {
    let d = format!("{VERIF_DIR}/target/vh-markers");
    let _ = std::fs::create_dir_all(&d);
    d
}

fn worker_driver(w: usize, exe: &std::path::Path, prop: &str, tier: Tier, ids: &[String], queue: Arc<Mutex<VecDeque<Job>>>,
                 results: Arc<Mutex<Vec<(Job, JobResult)>>>, deadline: Instant) {
    let marker = format!("{}/{}-{}-{}.marker", marker_dir(), prop, std::process::id(), w);
    let spawn = || {
        Command::new(exe).arg("worker").env("VH_MARKER", &marker)
            .stdin(Stdio::piped()).stdout(Stdio::piped()).stderr(Stdio::inherit()).spawn().expect("spawn worker")
    };
    let mut child = spawn();
    let mut stdin = child.stdin.take().unwrap();
    let mut stdout = BufReader::new(child.stdout.take().unwrap());
    loop {
        let Some(job) = queue.lock().unwrap().pop_front() else { break };
        if Instant::now() > deadline { queue.lock().unwrap().push_front(job); break }
        let remaining = deadline.saturating_duration_since(Instant::now()).as_millis() as u64;
        let line = json!({"prop": prop, "tier": tier.name(), "scenario": ids[job.def_idx], "bound": job.bound, "shard": job.shard, "nshards": job.nshards, "budget_ms": remaining});
        let ok = writeln!(stdin, "{}", line).is_ok() && stdin.flush().is_ok();
        let mut answer = String::new();
        let got = ok && stdout.read_line(&mut answer).map(|n| n > 0).unwrap_or(false);
        if got {
            let v: Value = serde_json::from_str(&answer).unwrap_or(json!({"error": format!("unparsable worker answer: {answer}")}));
            let mut r = JobResult::default();
            r.schedules = v["schedules"].as_u64().unwrap_or(0);
            r.steps = v["steps"].as_u64().unwrap_or(0);
            r.points = v["points"].as_u64().unwrap_or(0);
            r.max_points = v["max_points"].as_u64().unwrap_or(0);
            for i in 0..4 { r.terminals[i] = v["terminals"][i].as_u64().unwrap_or(0) }
            r.hashes = v["hashes"].as_array().map(|a| a.iter().filter_map(|x| x.as_str().and_then(|s| u64::from_str_radix(s, 16).ok())).collect()).unwrap_or_default();
            r.capped = v["capped"].as_bool().unwrap_or(false);
            r.samples = v["samples"].as_array().map(|a| a.iter().filter_map(|x| x.as_str().map(|s| s.to_string())).collect()).unwrap_or_default();
            r.error = v["error"].as_str().map(|s| s.to_string());
            if let Some(f) = v["found"].as_array() {
                for x in f {
                    r.found.push((x["kind"].as_str().unwrap_or("?").into(), x["detail"].as_str().unwrap_or("").into(),
                                  x["choices"].as_array().map(|a| a.iter().map(|c| c.as_u64().unwrap_or(0) as u8).collect()).unwrap_or_default(),
                                  x["bound"].as_u64().unwrap_or(0) as u32));
                }
            }
            results.lock().unwrap().push((job, r));
        } else {
            // the worker died: attribute to the execution whose marker it wrote last
            let status = child.wait().map(|s| format!("{s}")).unwrap_or_default();
            let last = std::fs::read_to_string(&marker).unwrap_or_default();
            let mut r = JobResult::default();
            r.crashed = Some(if last.starts_with("HUNG ") { format!("an execution did not end (30 s of CPU, or 900 s, without reaching its end; verdict and teardown of the subject included): {}", last.trim_end()) } else { format!("worker process died ({status}) while executing {last}") });
            results.lock().unwrap().push((job, r));
            child = spawn();
            stdin = child.stdin.take().unwrap();
            stdout = BufReader::new(child.stdout.take().unwrap());
        }
    }
    drop(stdin);
    let _ = child.wait();
    let _ = std::fs::remove_file(&marker);
}

// ------------------------------------------------------------------------------------------------ E1 worker

/// Hang watchdog of a worker process. `HEARTBEAT` moves at the start of every execution; while `ARMED`, an execution (including the
/// verdict and the teardown of the subject) that burns 30 s of CPU, or lasts 900 s, without the next one starting cannot be a legal
/// one (executions are capped at 20 000 steps of microseconds each): the marker is prefixed with HUNG and the process aborts, which
/// the master attributes to that execution.
static HEARTBEAT: std::sync::atomic::AtomicU64 = std::sync::atomic::AtomicU64::new(0);
static ARMED: std::sync::atomic::AtomicBool = std::sync::atomic::AtomicBool::new(false);
pub(crate) fn cpu_seconds() -> f64 {
    let mut ts = libc::timespec { tv_sec: 0, tv_nsec: 0 };
    unsafe { libc::clock_gettime(libc::CLOCK_PROCESS_CPUTIME_ID, &mut ts) };
    ts.tv_sec as f64 + ts.tv_nsec as f64 * 1e-9
}
fn spawn_watchdog(marker_path: Option<String>) {
    use std::sync::atomic::Ordering::SeqCst;
    let cpu_limit: f64 = std::env::var("VH_HANG_CPU_S").ok().and_then(|s| s.parse().ok()).unwrap_or(30.0);
    let wall_limit: f64 = std::env::var("VH_HANG_WALL_S").ok().and_then(|s| s.parse().ok()).unwrap_or(900.0);
    std::thread::spawn(move || {
        let (mut last, mut cpu0, mut t0) = (HEARTBEAT.load(SeqCst), cpu_seconds(), Instant::now());
        loop {
            std::thread::sleep(Duration::from_millis(500));
            let hb = HEARTBEAT.load(SeqCst);
            if hb != last || !ARMED.load(SeqCst) { last = hb; cpu0 = cpu_seconds(); t0 = Instant::now(); continue }
            if cpu_seconds() - cpu0 > cpu_limit || t0.elapsed().as_secs_f64() > wall_limit {
                if let Some(p) = &marker_path {
                    let old = std::fs::read_to_string(p).unwrap_or_default();
                    let _ = std::fs::write(p, format!("HUNG {}", old.trim_end()));
                }
                std::process::abort();
            }
        }
    });
}

pub fn worker() {
    mcx::install();
    let marker_path = std::env::var("VH_MARKER").ok();
    let marker_file = marker_path.as_ref().and_then(|p| std::fs::OpenOptions::new().create(true).write(true).truncate(true).open(p).ok());
    spawn_watchdog(marker_path.clone());
    let stdin = std::io::stdin();
    let mut cache: Option<(String, Tier, Vec<ScenarioDef>)> = None;
    for line in stdin.lock().lines() {
        let Ok(line) = line else { break };
        if line.trim().is_empty() { continue }
        let v: Value = match serde_json::from_str(&line) { Ok(v) => v, Err(e) => { println!("{}", json!({"error": format!("bad job: {e}")})); continue } };
        let prop = v["prop"].as_str().unwrap_or("").to_string();
        let tier = Tier::parse(v["tier"].as_str().unwrap_or("quick")).unwrap_or(Tier::Quick);
        let scen = v["scenario"].as_str().unwrap_or("");
        let bound = v["bound"].as_u64().unwrap_or(0) as u32;
        let shard = v["shard"].as_u64().unwrap_or(0) as usize;
        let nshards = v["nshards"].as_u64().unwrap_or(1) as usize;
        let budget = Duration::from_millis(v["budget_ms"].as_u64().unwrap_or(60_000));
        if cache.as_ref().map(|(p, t, _)| p != &prop || *t != tier).unwrap_or(true) {
            cache = Some((prop.clone(), tier, registry::scenarios(&prop, tier)));
        }
        let defs = &cache.as_ref().unwrap().2;
        let Some(def) = defs.iter().find(|d| d.id() == scen) else {
            println!("{}", json!({"error": format!("unknown scenario {scen}")}));
            continue;
        };
        let make = def.make.clone();
        let deadline = Instant::now() + budget;
        let scen_s = scen.to_string();
        ARMED.store(true, std::sync::atomic::Ordering::SeqCst);
        let (stats, found, err) = mcx::explore(&*make, bound, shard, nshards, Some(deadline), 2, |prefix| {
            HEARTBEAT.fetch_add(1, std::sync::atomic::Ordering::SeqCst);
            if let Some(f) = &marker_file {
                use std::os::unix::fs::FileExt;
                let s = format!("{scen_s} bound={bound} prefix={:?}\n{:200}", prefix, "");
                let _ = f.write_at(s.as_bytes(), 0);
            }
        });
        // determinism self-check for anything found
        let mut found_json = Vec::new();
        let mut error = err;
        for f in found {
            HEARTBEAT.fetch_add(1, std::sync::atomic::Ordering::SeqCst);
            match mcx::replay_check(&*make, &f.choices) {
                Ok(_) => found_json.push(json!({"kind": f.kind, "detail": f.detail, "choices": f.choices, "bound": f.bound})),
                Err(e) => { error = Some(e); }
            }
        }
        let out = json!({
            "schedules": stats.schedules, "steps": stats.steps, "points": stats.points, "max_points": stats.max_points,
            "terminals": stats.terminals, "capped": stats.capped,
            "hashes": stats.outcome_hashes.iter().take(4000).map(|h| format!("{h:x}")).collect::<Vec<_>>(),
            "samples": stats.samples, "found": found_json, "error": error,
        });
        ARMED.store(false, std::sync::atomic::Ordering::SeqCst);
        println!("{}", out);
        let _ = std::io::stdout().flush();
    }
}

// ------------------------------------------------------------------------------------------------ replay

pub fn replay(path: &str) -> i32 {
    let Ok(s) = std::fs::read_to_string(path) else { eprintln!("cannot read {path}"); return 2 };
    let Ok(v) = serde_json::from_str::<Value>(&s) else { eprintln!("not JSON: {path}"); return 2 };
    match v["engine"].as_str() {
        Some("mcx") => replay_mcx(&v),
        Some("seqx") => replay_seqx(&v),
        Some("c15") => crate::c15::replay(&v, path),
        Some("asan") => {
            let bin = std::env::var("VH_ASAN_BIN").unwrap_or_else(|_| format!("{VERIF_DIR}/target-asan/x86_64-unknown-linux-gnu/release/vha"));
            let choices = v["choices"].as_array().map(|a| a.iter().map(|c| c.as_u64().unwrap_or(0).to_string()).collect::<Vec<_>>().join(",")).unwrap_or_default();
            let st = Command::new(&bin).args(["replay", v["tier"].as_str().unwrap_or("thorough"), v["config"].as_str().unwrap_or(""), &choices]).env("ASAN_OPTIONS", "detect_leaks=0:exitcode=66").status();
            match st { Ok(s) if s.success() => { println!("no sanitizer report on this history"); 0 }, Ok(_) => { println!("VIOLATION property=C05 replay=<this file> kind=sanitizer-report"); 1 }, Err(e) => { eprintln!("cannot run {bin}: {e}"); 2 } }
        }
        Some("asyncx") => {
            let prop = v["prop"].as_str().unwrap_or("");
            let tier = Tier::parse(v["tier"].as_str().unwrap_or("thorough")).unwrap_or(Tier::Thorough);
            crate::asyncx::replay(prop, tier, v["tuple"].as_str().unwrap_or(""), registry::e3_tuples(prop, tier))
        }
        other => { eprintln!("unknown engine {:?}", other); 2 }
    }
}

fn replay_mcx(v: &Value) -> i32 {
    mcx::install();
    let scen = v["scenario"].as_str().unwrap_or("");
    let prop = scen.split('/').next().unwrap_or("");
    let tier = Tier::parse(v["tier"].as_str().unwrap_or("thorough")).unwrap_or(Tier::Thorough);
    let defs = registry::scenarios(prop, tier);
    let Some(def) = defs.iter().find(|d| d.id() == scen) else { eprintln!("unknown scenario {scen}"); return 2 };
    let choices: Vec<u8> = v["choices"].as_array().map(|a| a.iter().map(|c| c.as_u64().unwrap_or(0) as u8).collect()).unwrap_or_default();
    let (out, violations) = match mcx::replay_check(&*def.make, &choices) { Ok(o) => o, Err(e) => { eprintln!("ENGINE-ERROR: {e}"); return 2 } };
    println!("scenario: {scen}\nchoices: {:?}\nterminal: {:?}", choices, out.terminal);
    if let Some(tr) = &out.trace { for l in tr { println!("  {l}") } }
    println!("log: {}", mcx::fmt_log(&out.log));
    if violations.is_empty() { println!("no violation on this schedule"); 0 } else {
        for (k, d) in violations { println!("VIOLATION property={prop} replay=<this file> kind={k} -- {d}") }
        1
    }
}

fn replay_seqx(v: &Value) -> i32 {
    quiet_panics();
    let prop = v["prop"].as_str().unwrap_or("");
    let tier = Tier::parse(v["tier"].as_str().unwrap_or("thorough")).unwrap_or(Tier::Thorough);
    let name = v["config"].as_str().unwrap_or("");
    let cfgs = registry::seq_configs(prop, tier);
    let Some(cfg) = cfgs.iter().find(|c| c.name == name) else { eprintln!("unknown configuration {name}"); return 2 };
    let choices: Vec<usize> = v["choices"].as_array().map(|a| a.iter().map(|c| c.as_u64().unwrap_or(0) as usize).collect()).unwrap_or_default();
    println!("configuration: {name}");
    match crate::seqx::replay(cfg, &choices) {
        Ok((mut sys, names, obs)) => {
            for (n, o) in names.iter().zip(obs.iter()) { println!("  {n} => {o}") }
            match sys.epilogue() { Ok(()) => { println!("no violation on this history"); 0 }, Err((k, d)) => { println!("VIOLATION property={prop} replay=<this file> kind={k} -- {d} (epilogue)"); 1 } }
        }
        Err((i, names, (k, d))) => {
            for n in names.iter() { println!("  {n}") }
            println!("VIOLATION property={prop} replay=<this file> kind={k} -- at step {i}: {d}");
            1
        }
    }
}
