//! E3 `asyncx`: exhaustive enumeration of (configuration, workload, timing) tuples over the real executors / Unis / Multis, each tuple
//! executed on its own current-thread tokio runtime with a paused (virtual) clock -- one deterministic execution per tuple.
//! Shared pieces: instrumented item futures, the virtual clock, the tuple fan-out over worker threads, folding into a report.

use crate::master::{Report, Viol};
use serde_json::{json, Value};
use std::future::Future;
use std::sync::{Arc, Mutex};
use std::time::{Duration, Instant};

/// virtual milliseconds
pub const SLOW_MS: u64 = 2;
pub const TIMEOUT_MS: u64 = 5;
pub const LATE_MS: u64 = 10;
/// real milliseconds a `Hog` item keeps its thread busy (longer than the futures timeout, in wall-clock terms)
pub const HOG_REAL_MS: u64 = 7;

/// what one pipeline item does
#[derive(Debug, Clone, Copy, PartialEq, Eq, Hash)]
pub enum Class {
    Ok, Err,
    /// yields to the runtime once, then completes
    YieldOk, YieldErr,
    /// sleeps SLOW_MS (less than the timeout)
    SlowOk, SlowErr,
    /// sleeps LATE_MS (more than the timeout)
    LateOk, LateErr,
    /// yields once, then keeps the thread busy for HOG_REAL_MS of *real* time (the virtual clock stands still), then completes Ok
    HogOk,
}
impl Class {
    pub fn is_err(self) -> bool { matches!(self, Class::Err | Class::YieldErr | Class::SlowErr | Class::LateErr) }
    pub fn virtual_ms(self) -> u64 { match self { Class::SlowOk | Class::SlowErr => SLOW_MS, Class::LateOk | Class::LateErr => LATE_MS, _ => 0 } }
    pub fn letter(self) -> char { match self { Class::Ok => 'o', Class::Err => 'e', Class::YieldOk => 'y', Class::YieldErr => 'f', Class::SlowOk => 's', Class::SlowErr => 'r', Class::LateOk => 'L', Class::LateErr => 'R', Class::HogOk => 'H' } }
    pub fn from_letter(c: char) -> Option<Class> { [Class::Ok, Class::Err, Class::YieldOk, Class::YieldErr, Class::SlowOk, Class::SlowErr, Class::LateOk, Class::LateErr, Class::HogOk].into_iter().find(|k| k.letter() == c) }
    pub fn is_future_class(self) -> bool { !matches!(self, Class::Ok | Class::Err) }
}
pub fn seq_name(seq: &[Class]) -> String { if seq.is_empty() { "-".into() } else { seq.iter().map(|c| c.letter()).collect() } }
pub fn parse_seq(s: &str) -> Vec<Class> { s.chars().filter_map(Class::from_letter).collect() }

/// all sequences over `alphabet` of length 0..=max_len, shortest first
pub fn sequences(alphabet: &[Class], max_len: usize) -> Vec<Vec<Class>> {
    let mut out: Vec<Vec<Class>> = vec![vec![]];
    let mut last: Vec<Vec<Class>> = vec![vec![]];
    for _ in 0..max_len {
        let mut next = Vec::new();
        for s in &last { for c in alphabet { let mut t = s.clone(); t.push(*c); next.push(t) } }
        out.extend(next.iter().cloned());
        last = next;
    }
    out
}

#[derive(Debug, Clone, Default)]
pub struct ItemProbe {
    /// virtual instant (ns since the runtime started) of the first poll
    pub started: Option<u64>,
    pub completed: Option<u64>,
    /// the future was dropped after it started and before it completed (cancelled)
    pub cancelled: bool,
    pub starts: u32,
}

#[derive(Debug, Default)]
pub struct Probes {
    pub items: Vec<ItemProbe>,
    pub in_flight: u32,
    pub max_in_flight: u32,
    /// order in which items started
    pub start_order: Vec<usize>,
    pub on_err: Vec<String>,
    /// error handlers (async callbacks) that have begun / finished; the highest number in progress when a close callback ran
    pub err_handlers_begun: u32,
    pub err_handlers_done: u32,
    pub err_handlers_pending_at_close: u32,
    /// (virtual instant, tag) of callbacks
    pub callbacks: Vec<(u64, String)>,
}
pub type SharedProbes = Arc<Mutex<Probes>>;
pub fn new_probes(n: usize) -> SharedProbes { Arc::new(Mutex::new(Probes { items: vec![ItemProbe::default(); n], ..Default::default() })) }

thread_local! { static T0: std::cell::Cell<Option<tokio::time::Instant>> = const { std::cell::Cell::new(None) }; }
pub fn clock_start() { T0.with(|t| t.set(Some(tokio::time::Instant::now()))) }
/// virtual nanoseconds since `clock_start()`
pub fn vnow() -> u64 { T0.with(|t| t.get().map(|t0| tokio::time::Instant::now().duration_since(t0).as_nanos() as u64).unwrap_or(0)) }

struct Guard { idx: usize, probes: SharedProbes, done: bool }
impl Guard {
    fn start(idx: usize, probes: SharedProbes) -> Self {
        { let mut p = probes.lock().unwrap(); let now = vnow(); let it = &mut p.items[idx]; it.starts += 1; if it.started.is_none() { it.started = Some(now) } p.in_flight += 1; p.max_in_flight = p.max_in_flight.max(p.in_flight); p.start_order.push(idx); }
        Guard { idx, probes, done: false }
    }
    fn complete(&mut self) { self.done = true; let mut p = self.probes.lock().unwrap(); p.items[self.idx].completed = Some(vnow()); }
}
impl Drop for Guard {
    fn drop(&mut self) { let mut p = self.probes.lock().unwrap(); p.in_flight -= 1; if !self.done { p.items[self.idx].cancelled = true } }
}

pub type BoxErr = Box<dyn std::error::Error + Send + Sync>;

/// the work of item `idx`: observable through the probes, completes with `Ok(idx)` or `Err("E<idx>")`
pub async fn item_work(idx: usize, class: Class, probes: SharedProbes) -> Result<u32, BoxErr> {
    let mut g = Guard::start(idx, probes);
    match class {
        Class::Ok | Class::Err => {}
        Class::YieldOk | Class::YieldErr => tokio::task::yield_now().await,
        Class::SlowOk | Class::SlowErr | Class::LateOk | Class::LateErr => tokio::time::sleep(Duration::from_millis(class.virtual_ms())).await,
        Class::HogOk => { tokio::task::yield_now().await; let t = Instant::now(); while t.elapsed() < Duration::from_millis(HOG_REAL_MS) { std::hint::spin_loop() } }
    }
    g.complete();
    if class.is_err() { Err(format!("E{idx}").into()) } else { Ok(idx as u32) }
}

/// runs `f` to completion on a fresh current-thread runtime whose clock is paused (time advances only when every task is idle)
pub fn run_virtual<T>(f: impl Future<Output = T>) -> T {
    let rt = tokio::runtime::Builder::new_current_thread().enable_time().start_paused(true).build().expect("runtime");
    let r = rt.block_on(async { clock_start(); f.await });
    drop(rt);
    r
}

// ------------------------------------------------------------------------------------------------ fan-out

/// one tuple: its name (configuration / workload / timing, enough to re-run it), and the runner
pub struct Tuple { pub family: String, pub rung: String, pub run: Box<dyn Fn() -> Vec<(String, String)> + Send + Sync> }

#[derive(Default)]
pub struct E3Stats { pub tuples: u64, pub steps: u64, pub outcomes: std::collections::HashSet<u64>, pub capped: bool }

/// what a tuple run reports besides violations (for the evidence): number of item-level events observed, an outcome fingerprint
thread_local! { pub static LAST_RUN: std::cell::RefCell<(u64, u64, String)> = const { std::cell::RefCell::new((0, 0, String::new())) }; }
pub fn note_run(steps: u64, fingerprint: u64, sample: String) { LAST_RUN.with(|l| *l.borrow_mut() = (steps, fingerprint, sample)) }

pub fn fingerprint<T: std::hash::Hash>(t: &T) -> u64 { use std::hash::Hasher; let mut h = std::collections::hash_map::DefaultHasher::new(); t.hash(&mut h); h.finish() }

/// runs every tuple (16 worker threads, each tuple on its own runtime) and folds the outcome into the report
pub fn run_tuples(prop: &str, tier: crate::registry::Tier, tuples: Vec<Tuple>, cap: Duration, rep: &mut Report) {
    crate::master::quiet_panics();
    let deadline = Instant::now() + cap;
    let n = tuples.len();
    let tuples = Arc::new(tuples);
    let next = Arc::new(std::sync::atomic::AtomicUsize::new(0));
    let results: Arc<Mutex<Vec<(usize, Vec<(String, String)>)>>> = Arc::new(Mutex::new(Vec::new()));
    let stats = Arc::new(Mutex::new(E3Stats::default()));
    let samples: Arc<Mutex<Vec<Value>>> = Arc::new(Mutex::new(Vec::new()));
    let nthreads = std::thread::available_parallelism().map(|n| n.get()).unwrap_or(4).min(16);
    let mut handles = Vec::new();
    for _ in 0..nthreads {
        let (tuples, next, results, stats, samples) = (tuples.clone(), next.clone(), results.clone(), stats.clone(), samples.clone());
        handles.push(std::thread::Builder::new().stack_size(8 << 20).spawn(move || {
            let mut local = E3Stats::default();
            loop {
                let i = next.fetch_add(1, std::sync::atomic::Ordering::Relaxed);
                if i >= tuples.len() { break }
                if Instant::now() > deadline { local.capped = true; break }
                let t = &tuples[i];
                let r = std::panic::catch_unwind(std::panic::AssertUnwindSafe(|| (t.run)()));
                let viols = match r { Ok(v) => v, Err(p) => vec![("panic".to_string(), p.downcast_ref::<&str>().map(|s| s.to_string()).or_else(|| p.downcast_ref::<String>().cloned()).unwrap_or_else(|| "<panic>".into()))] };
                let (steps, fp, sample) = LAST_RUN.with(|l| l.borrow().clone());
                local.tuples += 1; local.steps += steps.max(1);
                if local.outcomes.len() < 100_000 { local.outcomes.insert(fp); }
                if i % (tuples.len() / 5 + 1) == 3 || i == 7 { let mut s = samples.lock().unwrap(); if s.len() < 6 { s.push(json!({"tuple": format!("{}/{}", t.family, t.rung), "observed": sample})) } }
                if !viols.is_empty() { results.lock().unwrap().push((i, viols)) }
            }
            let mut s = stats.lock().unwrap();
            s.tuples += local.tuples; s.steps += local.steps; s.outcomes.extend(local.outcomes); s.capped |= local.capped;
        }).unwrap());
    }
    for h in handles { let _ = h.join(); }
    let stats = std::mem::take(&mut *stats.lock().unwrap());
    let mut results = std::mem::take(&mut *results.lock().unwrap());
    results.sort_by_key(|r| r.0);
    rep.states += stats.tuples;
    rep.transitions += stats.steps;
    rep.traces += stats.tuples;
    if stats.capped || (stats.tuples as usize) < n { rep.exhaustive = false }
    rep.samples.extend(samples.lock().unwrap().drain(..));
    for (i, viols) in results {
        let t = &tuples[i];
        for (kind, detail) in viols {
            rep.violations.push(Viol { family: t.family.clone(), rung: t.rung.clone(), kind, detail,
                replay: json!({"engine": "asyncx", "prop": prop, "tier": tier.name(), "tuple": format!("{}/{}", t.family, t.rung)}) });
        }
    }
    rep.extra.insert("engine".into(), json!("E3 asyncx: exhaustive enumeration of (configuration, workload, timing) tuples over the real executors on a current-thread tokio runtime with a paused clock; one deterministic execution per tuple"));
    rep.extra.insert("tuples_enumerated".into(), json!(n));
    rep.extra.insert("tuples_executed".into(), json!(stats.tuples));
    rep.extra.insert("distinct_outcomes".into(), json!(stats.outcomes.len()));
    rep.extra.insert("wall_cap_hit".into(), json!(stats.capped));
    if stats.outcomes.len() <= 1 && stats.tuples > 1 { rep.engine_errors.push("vacuity alarm: every tuple produced the same observation".into()) }
    rep.assumptions = vec![
        "current-thread tokio runtime with a paused clock: tasks run in FIFO wake order and time advances only when every task is idle, so a tuple determines its execution; the multi-thread runtime is not covered".into(),
        "durations measured by the executors with a wall clock (minstant) are not owned by the harness and are never compared; only counters, callbacks and virtual-time stamps are".into(),
        "trusted: tokio, futures (for_each, for_each_concurrent), the harness' instrumented item futures".into(),
    ];
}

/// re-runs one tuple by name
pub fn replay(prop: &str, tier: crate::registry::Tier, name: &str, tuples: Vec<Tuple>) -> i32 {
    crate::master::quiet_panics();
    let Some(t) = tuples.iter().find(|t| format!("{}/{}", t.family, t.rung) == name) else { eprintln!("unknown tuple {name} (tier {})", tier.name()); return 2 };
    let a = (t.run)();
    let (_, fa, sample) = LAST_RUN.with(|l| l.borrow().clone());
    let b = (t.run)();
    let (_, fb, _) = LAST_RUN.with(|l| l.borrow().clone());
    println!("tuple: {name}\nobserved: {sample}");
    if a != b || fa != fb { eprintln!("ENGINE-ERROR: two runs of the same tuple differ"); return 2 }
    if a.is_empty() { println!("no violation on this tuple"); 0 } else { for (k, d) in a { println!("VIOLATION property={prop} replay=<this file> kind={k} -- {d}") } 1 }
}
