//! C17 -- listener churn during sends never makes another listener miss or repeat events (E1)

use crate::common::*;
use crate::c03::{Mk, MkDerived};
use crate::mcx::{self, Instance, Outcome};
use crate::registry::{ScenarioDef, Tier};
use futures::Stream;
use reactive_mutiny::prelude::advanced::*;
use std::pin::Pin;
use std::sync::{Arc, Mutex};
use std::task::{Context, Poll};

#[derive(Debug, Clone, Copy, PartialEq, Eq)]
pub enum Churn { Add, Remove }

#[derive(Debug, Clone)]
pub struct Spec {
    pub kind: MultiKind,
    pub ep: Ep,
    pub churn: Churn,
    /// listeners that exist throughout
    pub stable: usize,
    pub sends: usize,
    /// Remove: the listener to be removed is the one created first (id 0) or last
    pub remove_first: bool,
    /// polls done by the churn thread on its listener
    pub polls: usize,
}

const B: usize = 4;

fn make<C>(spec: Spec) -> Instance
where C: FullDuplexMultiChannel<ItemType = u32> + Send + Sync + 'static,
      C::DerivedItemType: Val + Send + 'static,
      Mk: MkDerived<C::DerivedItemType> {
    let name = chan_name("c17");
    let chan: Arc<C> = C::new(name.clone());
    if spec.kind == MultiKind::ML { cleanup_mmap(&name) }
    let mut bodies: Vec<mcx::Body> = Vec::new();
    // listener codes: 0..stable = stable ones, 9 = the churned one
    let mut victim = if spec.churn == Churn::Remove && spec.remove_first { Some(chan.create_stream_for_new_events().0) } else { None };
    let stable: Vec<_> = (0..spec.stable).map(|_| chan.create_stream_for_new_events().0).collect();
    if spec.churn == Churn::Remove && !spec.remove_first { victim = Some(chan.create_stream_for_new_events().0) }
    {
        let chan = chan.clone();
        let (ep, sends) = (spec.ep, spec.sends);
        bodies.push(Box::new(move || {
            let c = static_ref(&chan);
            for k in 0..sends { crate::c03::multi_send_any(c, ep, (100 + k) as u32); }
        }));
    }
    let added: Arc<Mutex<Option<MutinyStream<'static, u32, C, C::DerivedItemType>>>> = Arc::new(Mutex::new(None));
    {
        let (chan, added, churn, polls) = (chan.clone(), added.clone(), spec.churn, spec.polls);
        bodies.push(Box::new(move || {
            let waker = noop_waker();
            match churn {
                Churn::Add => {
                    mcx::rec("add.call", 0, 0);
                    let (mut s, _id) = chan.create_stream_for_new_events();
                    mcx::rec("add.ret", 0, 0);
                    for _ in 0..polls { let _ = poll_logged(&mut s, &waker, 9); }
                    *added.lock().unwrap() = Some(s);
                }
                Churn::Remove => {
                    let mut s = victim.take().unwrap();
                    for _ in 0..polls { let _ = poll_logged(&mut s, &waker, 9); }
                    mcx::rec("rm.call", 0, 0);
                    drop(s);
                    mcx::rec("rm.ret", 0, 0);
                }
            }
        }));
    }
    let sp = spec.clone();
    let stable = Mutex::new(stable);
    Instance { bodies, check: Box::new(move |out| {
        let waker = noop_waker();
        let mut cx = Context::from_waker(&waker);
        let mut drained: Vec<(i64, i64)> = Vec::new();
        let mut st = stable.lock().unwrap();
        for (l, s) in st.iter_mut().enumerate() {
            for _ in 0..(B + 4) { match Pin::new(&mut *s).poll_next(&mut cx) { Poll::Ready(Some(item)) => { drained.push((item.val() as i64, l as i64)); drop(item) }, _ => break } }
        }
        if let Some(s) = added.lock().unwrap().as_mut() {
            for _ in 0..(B + 4) { match Pin::new(&mut *s).poll_next(&mut cx) { Poll::Ready(Some(item)) => { drained.push((item.val() as i64, 9)); drop(item) }, _ => break } }
        }
        let mut v = judge(out, &sp, &drained);
        // OgreArc channels: with everything consumed and released, exactly BUFFER_SIZE further events fit
        if v.is_empty() && out.terminal == mcx::Terminal::Done && matches!(sp.kind, MultiKind::OA | MultiKind::OF) {
            let mut n = 0;
            for k in 0..(B + 2) { match chan.send(500 + k as u32) { keen_retry::RetryResult::Ok { .. } => n += 1, _ => break } }
            if n != B {
                v.push(("storage-leaked".into(), format!("after the churn, with every delivered event consumed and released, {n} of {B} sends were accepted: {}", mcx::fmt_log(&out.log))));
            }
        }
        st.clear();
        *added.lock().unwrap() = None;
        v
    }) }
}

/// Two threads add / remove listeners at the same time (no send in flight); once both are done, one event is sent: it must reach
/// every live listener exactly once, nobody else, and the stream accounting must be exact.
/// scripts: per thread a string over 'c' (create a listener and keep it) and 'd' (drop the listener this thread was given in setup)
#[derive(Debug, Clone)]
pub struct ChurnSpec { pub kind: MultiKind, pub scripts: Vec<&'static str>, pub stable: usize }

fn make_churn<C>(spec: ChurnSpec) -> Instance
where C: FullDuplexMultiChannel<ItemType = u32> + Send + Sync + 'static, C::DerivedItemType: Val + Send + 'static {
    let name = chan_name("c17");
    let chan: Arc<C> = C::new(name.clone());
    if spec.kind == MultiKind::ML { cleanup_mmap(&name) }
    type S<C> = MutinyStream<'static, u32, C, <C as FullDuplexMultiChannel>::DerivedItemType>;
    let stable: Vec<S<C>> = (0..spec.stable).map(|_| chan.create_stream_for_new_events().0).collect();
    // every thread that drops gets its victims up front
    let kept: Arc<Mutex<Vec<S<C>>>> = Arc::new(Mutex::new(Vec::new()));
    let mut bodies: Vec<mcx::Body> = Vec::new();
    for script in spec.scripts.iter() {
        let mut victims: Vec<S<C>> = script.chars().filter(|c| *c == 'd').map(|_| chan.create_stream_for_new_events().0).collect();
        let (chan, kept, script) = (chan.clone(), kept.clone(), *script);
        bodies.push(Box::new(move || {
            for op in script.chars() {
                match op {
                    'c' => { mcx::rec("add.call", 0, 0); let (s, id) = chan.create_stream_for_new_events(); mcx::rec("add.ret", id as i64, 0); kept.lock().unwrap().push(s) }
                    'd' => { let s = victims.pop().unwrap(); mcx::rec("rm.call", 0, 0); drop(s); mcx::rec("rm.ret", 0, 0) }
                    _ => unreachable!(),
                }
            }
        }));
    }
    let stable = Mutex::new(stable);
    let sp = spec.clone();
    Instance { bodies, check: Box::new(move |out| {
        let mut v = Vec::new();
        for (t, p) in out.panics.iter().enumerate() { if let Some(p) = p { v.push(("panic".to_string(), format!("thread {t}: {p}"))) } }
        if out.terminal != mcx::Terminal::Done { v.push(("no-termination".into(), format!("execution ended {:?}", out.terminal))); return v }
        let ctx = || mcx::fmt_log(&out.log);
        let mut live: Vec<S<C>> = stable.lock().unwrap().drain(..).collect();
        live.extend(kept.lock().unwrap().drain(..));
        let running = chan.running_streams_count() as usize;
        if running != live.len() { v.push(("stream-accounting".into(), format!("{} listeners are alive after the churn, running_streams_count() = {running}: {}", live.len(), ctx()))) }
        let accepted = matches!(chan.send(77), keen_retry::RetryResult::Ok { .. });
        if !accepted { v.push(("rejected".into(), format!("a send on an empty channel was rejected after the churn: {}", ctx()))) }
        let waker = noop_waker();
        let mut cx = Context::from_waker(&waker);
        let n_live = live.len();
        for (l, s) in live.iter_mut().enumerate() {
            let mut got = Vec::new();
            for _ in 0..3 { match Pin::new(&mut *s).poll_next(&mut cx) { Poll::Ready(Some(item)) => { got.push(item.val()); drop(item) }, _ => break } }
            if accepted && got != vec![77] {
                let kind = if got.is_empty() { "live-listener-missed" } else if got.len() > 1 { "live-listener-duplicate" } else { "live-listener-alien" };
                v.push((kind.into(), format!("listener {l} (of {n_live}) is alive when event 77 is sent after the churn ended; it yielded {:?}: {}", got, ctx())));
            }
        }
        if v.is_empty() && matches!(sp.kind, MultiKind::OA | MultiKind::OF) {
            let mut n = 0;
            for k in 0..(B + 2) { match chan.send(500 + k as u32) { keen_retry::RetryResult::Ok { .. } => { n += 1; for s in live.iter_mut() { if let Poll::Ready(Some(item)) = Pin::new(&mut *s).poll_next(&mut cx) { drop(item) } } }, _ => break } }
            if n != B + 2 { v.push(("storage-leaked".into(), format!("after the churn, with every event consumed and released at once, only {n} further sends were accepted: {}", ctx()))) }
        }
        drop(live);
        v
    }) }
}

fn judge(out: &Outcome, sp: &Spec, drained: &[(i64, i64)]) -> Vec<(String, String)> {
    let mut v = Vec::new();
    for (t, p) in out.panics.iter().enumerate() { if let Some(p) = p { v.push(("panic".to_string(), format!("thread {t}: {p}"))) } }
    if out.terminal != mcx::Terminal::Done { v.push(("no-termination".into(), format!("execution ended {:?}", out.terminal))); return v }
    let accepted: Vec<i64> = out.log.iter().filter(|r| r.op == "s.ret" && r.b == 1).map(|r| r.a).collect();
    let ctx = || format!("{} | drained {:?}", mcx::fmt_log(&out.log), drained);
    for l in 0..sp.stable as i64 {
        let seq: Vec<i64> = drained.iter().filter(|d| d.1 == l).map(|d| d.0).collect();
        if seq != accepted {
            let mut s = seq.clone(); s.sort();
            let kind = if s.windows(2).any(|w| w[0] == w[1]) { "stable-duplicate" } else if accepted.iter().any(|a| !seq.contains(a)) { "stable-missed" } else if seq.iter().any(|x| !accepted.contains(x)) { "stable-alien" } else { "stable-order" };
            v.push((kind.into(), format!("listener {l} exists throughout; accepted {:?}, it yielded {:?}: {}", accepted, seq, ctx())));
        }
    }
    let mut churned: Vec<i64> = out.log.iter().filter(|r| r.op == "got" && r.b == 9).map(|r| r.a).collect();
    churned.extend(drained.iter().filter(|d| d.1 == 9).map(|d| d.0));
    match sp.churn {
        Churn::Add => {
            if !accepted.ends_with(&churned) { v.push(("added-not-a-suffix".into(), format!("the listener being added yielded {:?}, not a gapless suffix of {:?}: {}", churned, accepted, ctx()))) }
            let ret = out.log.iter().find(|r| r.op == "add.ret").map(|r| r.stamp).unwrap_or(u32::MAX);
            for r in out.log.iter().filter(|r| r.op == "s.call" && r.stamp > ret) {
                if accepted.contains(&r.a) && !churned.contains(&r.a) { v.push(("added-missed".into(), format!("event {} was sent after the listener's creation returned, yet it never yielded it: {}", r.a, ctx()))) }
            }
        }
        Churn::Remove => {
            if !accepted.starts_with(&churned) { v.push(("removed-not-a-prefix".into(), format!("the listener being removed yielded {:?}, not a gapless prefix of {:?}: {}", churned, accepted, ctx()))) }
        }
    }
    v
}

pub fn scenarios(tier: Tier) -> Vec<ScenarioDef> {
    let mut defs = Vec::new();
    for kind in MultiKind::ALL {
        let mut eps = vec![Ep::Send];
        if tier == Tier::Thorough { eps.push(Ep::SendWith); if kind.has_reserve() { eps.push(Ep::Reserve) } if matches!(kind, MultiKind::AA | MultiKind::AF | MultiKind::AC) { eps.push(Ep::SendDerived) } }
        for ep in eps {
            for (churn, remove_first, cname) in [(Churn::Add, false, "add"), (Churn::Remove, true, "remove-first"), (Churn::Remove, false, "remove-last")] {
                for stable in [2usize, 3] {
                    if stable == 3 && tier == Tier::Quick { continue }
                    let family = format!("multi-{}/{}/{}/L{stable}", kind.name(), ep.name(), cname);
                    for (idx, &(sends, polls)) in [(1usize, 1usize), (2, 2)].iter().enumerate() {
                        if tier == Tier::Quick && kind == MultiKind::ML && sends > 1 { continue }
                        let spec = Spec { kind, ep, churn, stable, sends, remove_first, polls };
                        let bound = match tier { Tier::Quick => 2, Tier::Thorough => 3 };
                        defs.push(ScenarioDef { prop: "C17", family: family.clone(), rung: format!("E{sends}-N{polls}"), rung_idx: idx, max_bound: bound,
                            make: Arc::new(move || { let sp = spec.clone(); crate::dispatch_multi!(sp.kind, 4, 4, make(sp)) }) });
                    }
                }
            }
        }
    }
    // concurrent churn, quiescent send
    for kind in MultiKind::ALL {
        let mut scripts: Vec<(&str, Vec<&'static str>)> = vec![("T2-cc", vec!["c", "c"]), ("T2-cd", vec!["c", "d"]), ("T2-dd", vec!["d", "d"])];
        if tier == Tier::Thorough { scripts.extend([("T2-cdc", vec!["cd", "c"]), ("T3-ccc", vec!["c", "c", "c"]), ("T3-cdd", vec!["c", "d", "d"])]) }
        for (idx, (name, sc)) in scripts.into_iter().enumerate() {
            for stable in [0usize, 1] {
                let total = stable + sc.iter().map(|s| s.len()).sum::<usize>();
                if total > 4 { continue }
                if kind == MultiKind::ML && tier == Tier::Quick && stable == 0 { continue }
                let spec = ChurnSpec { kind, scripts: sc.clone(), stable };
                let bound = match tier { Tier::Quick => 2, Tier::Thorough => if sc.len() == 2 { 4 } else { 3 } };
                defs.push(ScenarioDef { prop: "C17", family: format!("multi-{}/concurrent-churn/L{stable}", kind.name()), rung: name.to_string(), rung_idx: idx, max_bound: bound,
                    make: Arc::new(move || { let sp = spec.clone(); crate::dispatch_multi!(sp.kind, 4, 4, make_churn(sp)) }) });
            }
        }
    }
    defs
}
