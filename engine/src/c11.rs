//! C11 -- executors account for every pipeline item exactly once; honour timeout and limit (E3)
//!
//! `StreamExecutor::<INSTRUMENTS>` is driven directly: every item sequence x executor kind x instrument setting x concurrency limit x
//! timeout setting is one tuple. The close callback of C12 is judged by the same runs (exactly once, status, finish >= start).

use crate::asyncx::{self, *};
use crate::registry::Tier;
use futures::StreamExt;
use reactive_mutiny::stream_executor::{ExecutorStatus, StreamExecutor, StreamExecutorStats};
use std::sync::atomic::Ordering::Relaxed;
use std::sync::{Arc, Mutex};
use std::time::Duration;

#[derive(Debug, Clone, Copy, PartialEq, Eq, Hash)]
pub enum Kind {
    /// spawn_executor: fallible futures
    FalFut,
    /// spawn_futures_executor: non-fallible futures
    Fut,
    /// spawn_fallibles_executor: fallible non-futures, with an error callback
    Fal,
    /// spawn_non_futures_executor: fallible non-futures, no error callback
    NonFut,
    /// spawn_non_futures_non_fallibles_executor
    Plain,
}
impl Kind {
    pub fn name(self) -> &'static str { match self { Kind::FalFut => "fallible-futures", Kind::Fut => "futures", Kind::Fal => "fallibles", Kind::NonFut => "non-futures", Kind::Plain => "plain" } }
    pub fn futures(self) -> bool { matches!(self, Kind::FalFut | Kind::Fut) }
    pub fn fallible(self) -> bool { matches!(self, Kind::FalFut | Kind::Fal | Kind::NonFut) }
    pub fn has_on_err(self) -> bool { matches!(self, Kind::FalFut | Kind::Fal) }
    pub fn alphabet(self, with_timeout: bool) -> Vec<Class> {
        match self {
            Kind::FalFut => if with_timeout { vec![Class::Ok, Class::Err, Class::YieldOk, Class::SlowOk, Class::SlowErr, Class::LateOk, Class::LateErr] } else { vec![Class::Ok, Class::Err, Class::YieldErr, Class::SlowOk, Class::SlowErr] },
            Kind::Fut => if with_timeout { vec![Class::Ok, Class::YieldOk, Class::SlowOk, Class::LateOk] } else { vec![Class::Ok, Class::YieldOk, Class::SlowOk] },
            Kind::Fal | Kind::NonFut => vec![Class::Ok, Class::Err],
            Kind::Plain => vec![Class::Ok],
        }
    }
}

/// instrument settings: the six named ones and a custom one with counters only
pub const INSTRUMENTS: [(usize, &str); 7] = [(0, "NoInstruments"), (32, "LogsWithoutMetrics"), (103, "LogsWithMetrics"), (107, "LogsWithExpensiveMetrics"), (7, "MetricsWithoutLogs"), (11, "ExpensiveMetricsWithoutLogs"), (1, "Custom(COUNTERS)")];
pub fn metrics_on(instruments: usize) -> bool { instruments & 15 != 0 }

#[derive(Debug, Clone)]
pub struct Cfg { pub kind: Kind, pub instruments: usize, pub limit: u32, pub timeout_ms: u64, pub seq: Vec<Class>,
                 /// fallible futures only: the (async) error callback sleeps this many virtual milliseconds before it completes (0 = completes at once)
                 pub slow_on_err: u64 }

#[derive(Debug, Clone, Default)]
struct Closing { calls: u32, at: u64, status: Option<ExecutorStatus>, start_delta: u64, finish_delta: u64, ok: u32, timed_out: u32, failed: u32 }

fn run_generic<const I: usize>(cfg: &Cfg) -> (Probes, Closing, bool) {
    let n = cfg.seq.len();
    let probes = new_probes(n);
    let closing = Arc::new(Mutex::new(Closing::default()));
    let seq = cfg.seq.clone();
    let (kind, limit, timeout, slow_on_err) = (cfg.kind, cfg.limit, Duration::from_millis(cfg.timeout_ms), cfg.slow_on_err);
    let (p2, c2) = (probes.clone(), closing.clone());
    let finished = asyncx::run_virtual(async move {
        let exec = if kind.futures() { StreamExecutor::<I>::with_futures_timeout("x", timeout) } else { StreamExecutor::<I>::new("x") };
        let (tx, rx) = tokio::sync::oneshot::channel::<()>();
        let tx = Arc::new(Mutex::new(Some(tx)));
        let pcb = p2.clone();
        let cb = { let (c2, tx) = (c2.clone(), tx.clone()); move |stats: Arc<dyn StreamExecutorStats + Send + Sync>| { let (c2, tx, pcb) = (c2.clone(), tx.clone(), pcb.clone()); async move {
            { let mut p = pcb.lock().unwrap(); let pending = p.err_handlers_begun - p.err_handlers_done; p.err_handlers_pending_at_close = p.err_handlers_pending_at_close.max(pending); }
            let mut c = c2.lock().unwrap();
            c.calls += 1; c.at = vnow(); c.status = Some(stats.executor_status().load(Relaxed));
            c.start_delta = stats.execution_start_delta_nanos(); c.finish_delta = stats.execution_finish_delta_nanos();
            c.ok = stats.ok_events_avg_future_duration().probe().0; c.timed_out = stats.timed_out_events_avg_future_duration().probe().0; c.failed = stats.failed_events_avg_future_duration().probe().0;
            if let Some(tx) = tx.lock().unwrap().take() { let _ = tx.send(()); }
        } } };
        let pe = p2.clone();
        let on_err_sync = move |e: BoxErr| { pe.lock().unwrap().on_err.push(e.to_string()) };
        match kind {
            Kind::FalFut => { let p = p2.clone(); let s = futures::stream::iter(seq.into_iter().enumerate()).map(move |(i, c)| item_work(i, c, p.clone())); let oe = on_err_sync.clone(); let ph = p2.clone(); let slow = slow_on_err;
                exec.clone().spawn_executor(limit, move |e| { oe(e); let ph = ph.clone(); async move { ph.lock().unwrap().err_handlers_begun += 1; if slow != 0 { tokio::time::sleep(Duration::from_millis(slow)).await } ph.lock().unwrap().err_handlers_done += 1; } }, cb, s) }
            Kind::Fut => { let p = p2.clone(); let s = futures::stream::iter(seq.into_iter().enumerate()).map(move |(i, c)| { let f = item_work(i, c, p.clone()); async move { f.await.unwrap_or(u32::MAX) } }); exec.clone().spawn_futures_executor(limit, cb, s) }
            Kind::Fal | Kind::NonFut | Kind::Plain => {
                // non-future items: "processing" an item is the executor taking it from the stream
                let p = p2.clone();
                let s = futures::stream::iter(seq.into_iter().enumerate()).map(move |(i, c)| {
                    { let mut pr = p.lock().unwrap(); let now = vnow(); pr.items[i].started = Some(now); pr.items[i].completed = Some(now); pr.items[i].starts += 1; pr.start_order.push(i); }
                    if c.is_err() { Err::<u32, BoxErr>(format!("E{i}").into()) } else { Ok(i as u32) }
                });
                match kind {
                    Kind::Fal => exec.clone().spawn_fallibles_executor(limit, on_err_sync, cb, s),
                    Kind::NonFut => exec.clone().spawn_non_futures_executor(limit, cb, s),
                    _ => exec.clone().spawn_non_futures_non_fallibles_executor(limit, cb, s.map(|r| r.unwrap_or(u32::MAX))),
                }
            }
        }
        // the clock only advances when everybody is idle: a second of virtual time is "forever" for these workloads
        let finished = tokio::time::timeout(Duration::from_secs(1), rx).await.is_ok();
        // anything that still happens afterwards (a second callback, a late item) is caught here
        tokio::time::sleep(Duration::from_millis(50)).await;
        finished
    });
    let p = std::mem::take(&mut *probes.lock().unwrap());
    let c = closing.lock().unwrap().clone();
    (p, c, finished)
}

fn run_dispatch(cfg: &Cfg) -> (Probes, Closing, bool) {
    match cfg.instruments { 0 => run_generic::<0>(cfg), 32 => run_generic::<32>(cfg), 103 => run_generic::<103>(cfg), 107 => run_generic::<107>(cfg), 7 => run_generic::<7>(cfg), 11 => run_generic::<11>(cfg), 1 => run_generic::<1>(cfg), x => panic!("instruments {x}") }
}

pub fn judge(cfg: &Cfg) -> Vec<(String, String)> {
    let (p, c, finished) = run_dispatch(cfg);
    let n = cfg.seq.len();
    let mut v: Vec<(String, String)> = Vec::new();
    let timeout = cfg.kind.futures() && cfg.timeout_ms != 0;
    let late = |cl: Class| timeout && cl.virtual_ms() > cfg.timeout_ms;
    let exp_timed_out = cfg.seq.iter().filter(|c| late(**c)).count() as u32;
    let exp_failed = if cfg.kind.fallible() { cfg.seq.iter().filter(|c| c.is_err() && !late(**c)).count() as u32 } else { 0 };
    let exp_ok = n as u32 - exp_timed_out - exp_failed;
    let ctx = format!("items {} -> started {:?}, completed {:?}, cancelled {:?}, on_err {:?}, counters ok/timed-out/failed = {}/{}/{}, max in flight {}",
        seq_name(&cfg.seq), p.items.iter().map(|i| i.started.map(|t| t / 1_000_000)).collect::<Vec<_>>(), p.items.iter().map(|i| i.completed.map(|t| t / 1_000_000)).collect::<Vec<_>>(),
        p.items.iter().map(|i| i.cancelled).collect::<Vec<_>>(), p.on_err, c.ok, c.timed_out, c.failed, p.max_in_flight);
    asyncx::note_run(n as u64 * 3 + 2, asyncx::fingerprint(&(c.ok, c.timed_out, c.failed, p.on_err.len(), p.max_in_flight, p.items.iter().map(|i| (i.started, i.completed, i.cancelled)).collect::<Vec<_>>(), c.at)), ctx.clone());
    // ---- C12 part: the close callback
    if !finished || c.calls == 0 { v.push(("close-callback-missing".into(), format!("the executor's close callback never ran: {ctx}"))); return v }
    if c.calls != 1 { v.push(("close-callback-repeated".into(), format!("the close callback ran {} times: {ctx}", c.calls))) }
    if c.status != Some(ExecutorStatus::StreamEnded) { v.push(("status".into(), format!("the close callback found the executor in state {:?} (the stream ended by itself): {ctx}", c.status))) }
    if c.start_delta == u64::MAX || c.finish_delta == u64::MAX || c.finish_delta < c.start_delta { v.push(("finish-before-start".into(), format!("start delta {} / finish delta {}: {ctx}", c.start_delta, c.finish_delta))) }
    let last_done = p.items.iter().filter_map(|i| i.completed).max().unwrap_or(0);
    if c.at < last_done { v.push(("close-callback-early".into(), format!("the close callback ran at {} ms, the last item completed at {} ms: {ctx}", c.at / 1_000_000, last_done / 1_000_000))) }
    if cfg.kind == Kind::FalFut && (p.err_handlers_pending_at_close != 0 || p.err_handlers_done != p.err_handlers_begun) { v.push(("close-callback-early".into(), format!("the close callback ran while {} error handler(s) of failed items were still running ({} begun, {} finished in the end): {ctx}", p.err_handlers_pending_at_close, p.err_handlers_begun, p.err_handlers_done))) }
    if p.in_flight != 0 || p.items.iter().any(|i| i.started.is_some() && i.completed.is_none() && !i.cancelled) { v.push(("close-callback-early".into(), format!("an item is still in progress after the close callback: {ctx}"))) }
    // ---- C11
    for (i, it) in p.items.iter().enumerate() {
        if it.started.is_none() { v.push(("item-skipped".into(), format!("item #{i} was never processed (an earlier failure or time-out must not stop the stream): {ctx}"))); continue }
        if it.starts != 1 { v.push(("item-repeated".into(), format!("item #{i} was started {} times: {ctx}", it.starts))) }
        if late(cfg.seq[i]) {
            if it.completed.is_some() || !it.cancelled { v.push(("timeout-not-enforced".into(), format!("item #{i} takes {} ms, the timeout is {} ms, yet its future was not cancelled: {ctx}", cfg.seq[i].virtual_ms(), cfg.timeout_ms))) }
        } else if it.completed.is_none() { v.push(("item-cancelled".into(), format!("item #{i} stays within the time budget (or there is none) but its future was dropped before completing: {ctx}"))) }
    }
    if cfg.kind.futures() && p.max_in_flight > cfg.limit { v.push(("limit-exceeded".into(), format!("{} item futures were in progress at once with a concurrency limit of {}: {ctx}", p.max_in_flight, cfg.limit))) }
    if cfg.kind.has_on_err() {
        let mut want: Vec<String> = cfg.seq.iter().enumerate().filter(|(_, c)| c.is_err() && !late(**c)).map(|(i, _)| format!("E{i}")).collect();
        let mut got = p.on_err.clone(); want.sort(); got.sort();
        if want != got { v.push(("error-callback".into(), format!("the error callback must run once for each of {:?}; it ran for {:?}: {ctx}", want, got))) }
    }
    if cfg.kind == Kind::FalFut && p.err_handlers_begun != p.err_handlers_done {
        v.push(("error-callback-cancelled".into(), format!("{} error handler(s) were started for failed items, {} ran to their end: {ctx}", p.err_handlers_begun, p.err_handlers_done)));
    }
    if metrics_on(cfg.instruments) {
        if c.ok + c.timed_out + c.failed != n as u32 { v.push(("counters-sum".into(), format!("{n} items, but ok + timed-out + failed = {}: {ctx}", c.ok + c.timed_out + c.failed))) }
        else if (c.ok, c.timed_out, c.failed) != (exp_ok, exp_timed_out, exp_failed) { v.push(("counters-split".into(), format!("expected ok/timed-out/failed = {exp_ok}/{exp_timed_out}/{exp_failed}: {ctx}"))) }
    }
    v
}

pub fn configs(tier: Tier) -> Vec<Cfg> {
    let mut v = Vec::new();
    let max_len = match tier { Tier::Quick => 4, Tier::Thorough => 7 };
    let limits: Vec<u32> = match tier { Tier::Quick => vec![1, 2, 3, 4, 8], Tier::Thorough => vec![1, 2, 3, 4, 8] };
    for kind in [Kind::FalFut, Kind::Fut, Kind::Fal, Kind::NonFut, Kind::Plain] {
        for timeout_ms in if kind.futures() { vec![0, TIMEOUT_MS] } else { vec![0] } {
            let len = if kind.futures() { if kind == Kind::FalFut { max_len - 1 } else { max_len } } else { max_len + 1 };
            for seq in sequences(&kind.alphabet(timeout_ms != 0), len) {
                for (instruments, _) in INSTRUMENTS { for limit in &limits { v.push(Cfg { kind, instruments, limit: *limit, timeout_ms, seq: seq.clone(), slow_on_err: 0 }) } }
                // the same workload with an error handler that takes one (virtual) millisecond, or longer than the whole time budget of an item
                if kind == Kind::FalFut && seq.iter().any(|c| c.is_err()) && seq.len() <= 3 { for slow_on_err in [1u64, 2 * TIMEOUT_MS + 2] { for instruments in [0usize, 7] { for limit in [1u32, 2, 3] { v.push(Cfg { kind, instruments, limit, timeout_ms, seq: seq.clone(), slow_on_err }) } } } }
            }
            // one item keeps the thread busy past the time budget in wall-clock terms while its siblings fail / succeed on the virtual clock
            if kind.futures() && timeout_ms != 0 {
                let others = if kind == Kind::FalFut { vec![Class::Ok, Class::SlowOk, Class::SlowErr, Class::Err] } else { vec![Class::Ok, Class::SlowOk] };
                for seq in sequences(&others, 2) {
                    for pos in 0..=seq.len() {
                        let mut s = seq.clone(); s.insert(pos, Class::HogOk);
                        for instruments in [7usize, 107] { for limit in [1u32, 2, 3] { v.push(Cfg { kind, instruments, limit, timeout_ms, seq: s.clone(), slow_on_err: 0 }) } }
                    }
                }
            }
        }
    }
    v
}

/// violation kinds that belong to C12 (the executor's close callback); everything else `judge` reports belongs to C11
pub const C12_KINDS: [&str; 5] = ["close-callback-missing", "close-callback-repeated", "close-callback-early", "status", "finish-before-start"];

pub fn tuples(prop: &'static str, tier: Tier) -> Vec<Tuple> {
    configs(tier).into_iter().filter(|cfg| if prop == "C11" { true } else { cfg.instruments == 7 || cfg.instruments == 0 || cfg.seq.len() <= 2 }).map(|cfg| {
        let iname = INSTRUMENTS.iter().find(|(i, _)| *i == cfg.instruments).map(|(_, n)| *n).unwrap_or("?");
        Tuple { family: format!("executor-{}/{}/{}{}", cfg.kind.name(), if cfg.timeout_ms == 0 { "no-timeout".to_string() } else { format!("timeout-{}ms", cfg.timeout_ms) }, iname, if cfg.slow_on_err != 0 { format!("/error-handler-{}ms", cfg.slow_on_err) } else { String::new() }),
                rung: format!("L{}-{}", cfg.limit, seq_name(&cfg.seq)),
                run: Box::new(move || judge(&cfg).into_iter().filter(|(k, _)| C12_KINDS.contains(&k.as_str()) == (prop == "C12")).collect()) }
    }).collect()
}
