//! Brute-force linearizability search (Wing & Gong) for short histories, plus the permissive interval rules of DESIGN.md §3.5.

use std::collections::{HashSet, VecDeque};

#[derive(Debug, Clone, Copy, PartialEq, Eq, Hash)]
pub enum OpKind {
    /// insertion that reported success
    Push(i64),
    /// removal that returned this value
    Pop(i64),
    /// removal that found nothing
    PopEmpty,
    /// insertion that reported "full" (only used with strict `full` checking)
    PushFull,
    /// length query that answered this
    Len(i64),
}

#[derive(Debug, Clone, Copy)]
pub struct Op {
    pub call: u32,
    pub ret: u32,
    pub kind: OpKind,
}

#[derive(Debug, Clone, Copy, PartialEq, Eq)]
pub enum Discipline { Fifo, Lifo }

/// Is there a total order of `ops`, consistent with real time (a.ret < b.call => a before b), that a sequential bounded
/// FIFO / LIFO of capacity `cap` accepts? `strict_full`: a `PushFull` is only legal when the container holds `cap` elements.
pub fn linearizable(ops: &[Op], disc: Discipline, cap: usize, strict_full: bool) -> bool {
    assert!(ops.len() <= 24);
    let mut seen: HashSet<(u32, Vec<i64>)> = HashSet::new();
    fn go(ops: &[Op], remaining: u32, state: &mut VecDeque<i64>, disc: Discipline, cap: usize, strict_full: bool, seen: &mut HashSet<(u32, Vec<i64>)>) -> bool {
        if remaining == 0 { return true }
        let key = (remaining, state.iter().copied().collect::<Vec<_>>());
        if !seen.insert(key) { return false }
        // minimal ops: nobody remaining returned before it was called
        let min_ret = (0..ops.len()).filter(|i| remaining & (1 << i) != 0).map(|i| ops[i].ret).min().unwrap();
        for i in 0..ops.len() {
            if remaining & (1 << i) == 0 { continue }
            if ops[i].call > min_ret { continue }
            match ops[i].kind {
                OpKind::Push(v) => {
                    if state.len() >= cap { continue }
                    state.push_back(v);
                    if go(ops, remaining & !(1 << i), state, disc, cap, strict_full, seen) { return true }
                    state.pop_back();
                }
                OpKind::Pop(v) => {
                    let top = match disc { Discipline::Fifo => state.front().copied(), Discipline::Lifo => state.back().copied() };
                    if top != Some(v) { continue }
                    match disc { Discipline::Fifo => { state.pop_front(); }, Discipline::Lifo => { state.pop_back(); } }
                    if go(ops, remaining & !(1 << i), state, disc, cap, strict_full, seen) { return true }
                    match disc { Discipline::Fifo => state.push_front(v), Discipline::Lifo => state.push_back(v) }
                }
                OpKind::PopEmpty => {
                    if !state.is_empty() { continue }
                    if go(ops, remaining & !(1 << i), state, disc, cap, strict_full, seen) { return true }
                }
                OpKind::PushFull => {
                    if strict_full && state.len() < cap { continue }
                    if go(ops, remaining & !(1 << i), state, disc, cap, strict_full, seen) { return true }
                }
                OpKind::Len(n) => {
                    if state.len() as i64 != n { continue }
                    if go(ops, remaining & !(1 << i), state, disc, cap, strict_full, seen) { return true }
                }
            }
        }
        false
    }
    let all = if ops.len() == 32 { u32::MAX } else { (1u32 << ops.len()) - 1 };
    go(ops, all, &mut VecDeque::new(), disc, cap, strict_full, &mut seen)
}

/// `None` if linearizable; otherwise what kind of answer, when ignored, would make the history explainable
pub fn classify(ops: &[Op], disc: Discipline, cap: usize, strict_full: bool) -> Option<&'static str> {
    if linearizable(ops, disc, cap, strict_full) { return None }
    let no_empty: Vec<Op> = ops.iter().copied().filter(|o| o.kind != OpKind::PopEmpty).collect();
    if linearizable(&no_empty, disc, cap, strict_full) { return Some("not-linearizable/false-empty") }
    let no_full: Vec<Op> = ops.iter().copied().filter(|o| o.kind != OpKind::PushFull).collect();
    if strict_full && linearizable(&no_full, disc, cap, strict_full) { return Some("not-linearizable/false-full") }
    // both kinds of answer at once (an in-flight dequeue makes one thread see 'empty' and another 'full')
    let neither: Vec<Op> = no_empty.iter().copied().filter(|o| o.kind != OpKind::PushFull).collect();
    if strict_full && linearizable(&neither, disc, cap, strict_full) { return Some("not-linearizable/false-empty+false-full") }
    Some("not-linearizable/order-or-loss")
}

/// An interval during which one unit of capacity may be taken: from `from` (call of the taking operation) until
/// `until` (return of the operation that gives it back; `u32::MAX` = never within the run).
#[derive(Debug, Clone, Copy)]
pub struct Hold { pub from: u32, pub until: u32 }

/// Permissive justification of a "full" answer over [call, ret]: is there an instant at which at least `cap` holds
/// (over-approximated: from the call of the taker to the return of the releaser) overlap?
pub fn full_justified(call: u32, ret: u32, holds: &[Hold], cap: usize) -> bool {
    // the count only changes at hold boundaries; test every candidate instant inside [call, ret]
    let mut instants: Vec<u32> = vec![call, ret];
    for h in holds { if h.from >= call && h.from <= ret { instants.push(h.from) } }
    instants.into_iter().any(|t| holds.iter().filter(|h| h.from <= t && h.until > t).count() >= cap)
}

#[cfg(test)]
mod tests {
    use super::*;
    #[test]
    fn fifo_basic() {
        let ops = [Op { call: 1, ret: 2, kind: OpKind::Push(1) }, Op { call: 3, ret: 4, kind: OpKind::Push(2) }, Op { call: 5, ret: 6, kind: OpKind::Pop(1) }];
        assert!(linearizable(&ops, Discipline::Fifo, 2, true));
        let bad = [Op { call: 1, ret: 2, kind: OpKind::Push(1) }, Op { call: 3, ret: 4, kind: OpKind::Push(2) }, Op { call: 5, ret: 6, kind: OpKind::Pop(2) }];
        assert!(!linearizable(&bad, Discipline::Fifo, 2, true));
        assert!(linearizable(&bad, Discipline::Lifo, 2, true));
        // overlapping pushes may commute
        let ovl = [Op { call: 1, ret: 4, kind: OpKind::Push(1) }, Op { call: 2, ret: 3, kind: OpKind::Push(2) }, Op { call: 5, ret: 6, kind: OpKind::Pop(2) }];
        assert!(linearizable(&ovl, Discipline::Fifo, 2, true));
        // empty answer while an element is certainly inside
        let e = [Op { call: 1, ret: 2, kind: OpKind::Push(1) }, Op { call: 3, ret: 4, kind: OpKind::PopEmpty }];
        assert!(!linearizable(&e, Discipline::Fifo, 2, true));
    }
}
