//! Shared harness pieces: payload views, send entry points, driven consumers, channel-kind dispatch.

use crate::mcx;
use futures::Stream;
use reactive_mutiny::prelude::advanced::*;
use std::future::Future;
use std::pin::Pin;
use std::sync::Arc;
use std::task::{Context, Poll, Waker};

/// how a delivered item is turned back into the `u32` that was sent
pub trait Val {
    fn val(&self) -> u32;
    /// address of the payload (identity of the allocation)
    fn addr(&self) -> usize;
}
impl Val for u32 {
    fn val(&self) -> u32 { *self }
    fn addr(&self) -> usize { 0 }
}
impl<A: BoundedOgreAllocator<u32> + Send + Sync> Val for OgreUnique<u32, A> {
    fn val(&self) -> u32 { **self }
    fn addr(&self) -> usize { &**self as *const u32 as usize }
}
impl<A: BoundedOgreAllocator<u32> + Send + Sync + 'static> Val for OgreArc<u32, A> {
    fn val(&self) -> u32 { **self }
    fn addr(&self) -> usize { &**self as *const u32 as usize }
}
impl Val for Arc<u32> {
    fn val(&self) -> u32 { **self }
    fn addr(&self) -> usize { Arc::as_ptr(self) as usize }
}
impl Val for &'static u32 {
    fn val(&self) -> u32 { **self }
    fn addr(&self) -> usize { *self as *const u32 as usize }
}

#[derive(Debug, Clone, Copy, PartialEq, Eq, Hash)]
pub enum UniKind { MA, MF, MC, ZA, ZF }
impl UniKind {
    pub const ALL: [UniKind; 5] = [UniKind::MA, UniKind::MF, UniKind::MC, UniKind::ZA, UniKind::ZF];
    pub fn name(self) -> &'static str { match self { Self::MA => "MA", Self::MF => "MF", Self::MC => "MC", Self::ZA => "ZA", Self::ZF => "ZF" } }
    pub fn has_reserve(self) -> bool { matches!(self, Self::MA | Self::ZA | Self::ZF) }
    pub fn from_name(s: &str) -> Option<Self> { Self::ALL.into_iter().find(|k| k.name() == s) }
}

#[derive(Debug, Clone, Copy, PartialEq, Eq, Hash)]
pub enum MultiKind { AA, AF, AC, OA, OF, ML }
impl MultiKind {
    pub const ALL: [MultiKind; 6] = [MultiKind::AA, MultiKind::AF, MultiKind::AC, MultiKind::OA, MultiKind::OF, MultiKind::ML];
    pub const NON_LOG: [MultiKind; 5] = [MultiKind::AA, MultiKind::AF, MultiKind::AC, MultiKind::OA, MultiKind::OF];
    pub fn name(self) -> &'static str { match self { Self::AA => "AA", Self::AF => "AF", Self::AC => "AC", Self::OA => "OA", Self::OF => "OF", Self::ML => "ML" } }
    pub fn has_reserve(self) -> bool { matches!(self, Self::OA | Self::OF) }
    pub fn has_async(self) -> bool { !matches!(self, Self::ML) }
    pub fn has_derived(self) -> bool { !matches!(self, Self::ML) }
    pub fn from_name(s: &str) -> Option<Self> { Self::ALL.into_iter().find(|k| k.name() == s) }
}

/// send entry points
#[derive(Debug, Clone, Copy, PartialEq, Eq, Hash)]
pub enum Ep { Send, SendWith, SendWithAsync, Reserve, SendDerived }
impl Ep {
    pub fn name(self) -> &'static str { match self { Self::Send => "send", Self::SendWith => "send_with", Self::SendWithAsync => "send_with_async", Self::Reserve => "reserve", Self::SendDerived => "send_derived" } }
    pub fn code(self) -> i64 { self as i64 }
    pub fn from_name(s: &str) -> Option<Self> { [Self::Send, Self::SendWith, Self::SendWithAsync, Self::Reserve, Self::SendDerived].into_iter().find(|k| k.name() == s) }
}

pub fn noop_waker() -> Waker {
    futures::task::noop_waker()
}

/// Drives a future to completion by hand, yielding to the scheduler whenever it answers Pending.
pub fn drive<F: Future>(fut: F) -> F::Output {
    let mut fut = std::pin::pin!(fut);
    let w = noop_waker();
    let mut cx = Context::from_waker(&w);
    loop {
        match fut.as_mut().poll(&mut cx) {
            Poll::Ready(r) => return r,
            Poll::Pending => mcx::yield_now(),
        }
    }
}

/// Gives a `'static` view of a channel kept alive by the `Arc` the caller holds for the whole execution.
pub fn static_ref<C>(arc: &Arc<C>) -> &'static C {
    unsafe { &*Arc::as_ptr(arc) }
}

/// Performs one send through `ep`, logging `s.call(v, ep)` and `s.ret(v, accepted)`. Returns whether it was accepted.
/// A rejected `send` must hand back the same payload; a rejected setter must not have been invoked: both are logged
/// as `s.bad(v, code)` when contradicted.
pub fn send_ep<C, D>(chan: &'static C, ep: Ep, v: u32) -> bool
where C: ChannelProducer<'static, u32, D>, D: 'static + std::fmt::Debug {
    mcx::rec("s.call", v as i64, ep.code());
    let accepted = match ep {
        Ep::Send => {
            match chan.send(v) {
                keen_retry::RetryResult::Ok { .. } => true,
                keen_retry::RetryResult::Transient { input, .. } => { if input != v { mcx::rec("s.bad", v as i64, 1) } false },
                keen_retry::RetryResult::Fatal { .. } => { mcx::rec("s.bad", v as i64, 2); false },
            }
        }
        Ep::SendWith => {
            let invoked = std::cell::Cell::new(0u32);
            let r = chan.send_with(|slot| { invoked.set(invoked.get() + 1); mcx::step(); unsafe { std::ptr::write(slot, v) } });
            match r {
                keen_retry::RetryResult::Ok { .. } => { if invoked.get() != 1 { mcx::rec("s.bad", v as i64, 3) } true },
                keen_retry::RetryResult::Transient { input, .. } => {
                    if invoked.get() != 0 { mcx::rec("s.bad", v as i64, 4) }
                    let _ = input;
                    false
                },
                keen_retry::RetryResult::Fatal { .. } => { mcx::rec("s.bad", v as i64, 2); false },
            }
        }
        Ep::SendWithAsync => {
            let invoked = Arc::new(std::sync::atomic::AtomicU32::new(0));
            let inv = invoked.clone();
            let fut = chan.send_with_async(move |slot: &'static mut u32| {
                inv.fetch_add(1, std::sync::atomic::Ordering::Relaxed);
                async move { mcx::step(); unsafe { std::ptr::write(slot, v) }; slot }
            });
            let r = drive(fut);
            let n = invoked.load(std::sync::atomic::Ordering::Relaxed);
            match r {
                keen_retry::RetryResult::Ok { .. } => { if n != 1 { mcx::rec("s.bad", v as i64, 3) } true },
                keen_retry::RetryResult::Transient { input, .. } => { if n != 0 { mcx::rec("s.bad", v as i64, 4) } let _ = input; false },
                keen_retry::RetryResult::Fatal { .. } => { mcx::rec("s.bad", v as i64, 2); false },
            }
        }
        Ep::Reserve => {
            match chan.reserve_slot() {
                None => false,
                Some(slot) => {
                    unsafe { std::ptr::write(slot, v) };
                    while !chan.try_send_reserved(slot) {
                        mcx::yield_now();
                    }
                    true
                }
            }
        }
        Ep::SendDerived => unreachable!("send_derived is a Multi entry point"),
    };
    mcx::rec("s.ret", v as i64, accepted as i64);
    accepted
}

/// One poll of a stream with the given waker; logs `p.call(cid)` and one of `got(v, cid)`, `end(cid)`, `pend(cid)`.
pub fn poll_logged<S, D>(stream: &mut S, waker: &Waker, cid: i64) -> Poll<Option<D>>
where S: Stream<Item = D> + Unpin, D: Val {
    mcx::rec("p.call", cid, 0);
    let mut cx = Context::from_waker(waker);
    let r = Pin::new(stream).poll_next(&mut cx);
    match &r {
        Poll::Ready(Some(d)) => mcx::rec("got", d.val() as i64, cid),
        Poll::Ready(None) => mcx::rec("end", cid, 0),
        Poll::Pending => mcx::rec("pend", cid, 0),
    }
    r
}

/// The executor contract of C04 / C07: poll; park on Pending; re-poll when the waker is invoked; stop at end-of-stream.
/// Items are dropped as soon as they are logged.
pub fn driven_consumer<S, D>(mut stream: S, cid: i64)
where S: Stream<Item = D> + Unpin, D: Val {
    let waker = mcx::waker_for_me();
    loop {
        match poll_logged(&mut stream, &waker, cid) {
            Poll::Ready(Some(_)) => {},
            Poll::Ready(None) => break,
            Poll::Pending => mcx::park(),
        }
    }
    drop(stream);
    mcx::rec("c.dropped", cid, 0);
}

/// Polls without ever parking, at most `max_polls` times; stops early at end-of-stream. Returns the stream for a later drain.
pub fn polling_consumer<S, D>(stream: &mut S, cid: i64, max_polls: usize)
where S: Stream<Item = D> + Unpin, D: Val {
    let waker = noop_waker();
    for _ in 0..max_polls {
        if let Poll::Ready(None) = poll_logged(stream, &waker, cid) { break }
    }
}

/// instantiates `$f::<ChannelType>($args...)` for a Uni channel kind with `u32` payloads and the given (BUFFER, MAX_STREAMS)
#[macro_export]
macro_rules! dispatch_uni {
    ($kind:expr, $b:expr, $m:expr, $f:ident ( $($args:expr),* )) => {{
        use reactive_mutiny::prelude::advanced::*;
        use $crate::common::UniKind as K;
        macro_rules! go { ($B:literal, $M:literal) => {
            match $kind {
                K::MA => $f::<ChannelUniMoveAtomic<u32, $B, $M>>($($args),*),
                K::MF => $f::<ChannelUniMoveFullSync<u32, $B, $M>>($($args),*),
                K::MC => $f::<ChannelUniMoveCrossbeam<u32, $B, $M>>($($args),*),
                K::ZA => $f::<ChannelUniZeroCopyAtomic<u32, $B, $M>>($($args),*),
                K::ZF => $f::<ChannelUniZeroCopyFullSync<u32, $B, $M>>($($args),*),
            }
        } }
        match ($b, $m) {
            (2, 1) => go!(2, 1), (2, 2) => go!(2, 2),
            (4, 1) => go!(4, 1), (4, 2) => go!(4, 2),
            (8, 1) => go!(8, 1), (8, 2) => go!(8, 2), (8, 4) => go!(8, 4),
            other => panic!("dispatch_uni: unsupported (BUFFER, MAX_STREAMS) {:?}", other),
        }
    }}
}

/// `send_ep` for Uni channels
pub fn uni_send<C>(chan: &'static C, ep: Ep, v: u32) -> bool
where C: FullDuplexUniChannel<ItemType = u32> {
    send_ep::<C, C::DerivedItemType>(chan, ep, v)
}

/// `send_ep` for Multi channels
pub fn multi_send<C>(chan: &'static C, ep: Ep, v: u32) -> bool
where C: FullDuplexMultiChannel<ItemType = u32> {
    send_ep::<C, C::DerivedItemType>(chan, ep, v)
}

/// per-process unique channel name (the mmap-log channel derives a file name in /tmp from it)
pub fn chan_name(tag: &str) -> String {
    format!("vh-{}-{}", tag, std::process::id())
}

/// like `chan_name`, but distinct for every call (tuples of E3 run on several threads of one process)
pub fn chan_name_unique(tag: &str) -> String {
    static N: std::sync::atomic::AtomicU64 = std::sync::atomic::AtomicU64::new(0);
    format!("vh-{}-{}-{}", tag, std::process::id(), N.fetch_add(1, std::sync::atomic::Ordering::Relaxed))
}

/// removes the backing file the mmap-log channel created for `name`
pub fn cleanup_mmap(name: &str) {
    let _ = std::fs::remove_file(format!("/tmp/{name}.mmap"));
}

/// instantiates `$f::<ChannelType>($args...)` for a Multi channel kind with `u32` payloads
#[macro_export]
macro_rules! dispatch_multi {
    ($kind:expr, $b:expr, $m:expr, $f:ident ( $($args:expr),* )) => {{
        use reactive_mutiny::prelude::advanced::*;
        use $crate::common::MultiKind as K;
        macro_rules! go { ($B:literal, $M:literal) => {
            match $kind {
                K::AA => $f::<ChannelMultiArcAtomic<u32, $B, $M>>($($args),*),
                K::AF => $f::<ChannelMultiArcFullSync<u32, $B, $M>>($($args),*),
                K::AC => $f::<ChannelMultiArcCrossbeam<u32, $B, $M>>($($args),*),
                K::OA => $f::<ChannelMultiOgreArcAtomic<u32, $B, $M>>($($args),*),
                K::OF => $f::<ChannelMultiOgreArcFullSync<u32, $B, $M>>($($args),*),
                K::ML => $f::<ChannelMultiMmapLog<u32, $M>>($($args),*),
            }
        } }
        match ($b, $m) {
            (4, 1) => go!(4, 1), (4, 2) => go!(4, 2), (4, 4) => go!(4, 4),
            (8, 1) => go!(8, 1), (8, 2) => go!(8, 2), (8, 4) => go!(8, 4),
            other => panic!("dispatch_multi: unsupported (BUFFER, MAX_STREAMS) {:?}", other),
        }
    }}
}
