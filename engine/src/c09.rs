//! C09 -- log (mmap) channel: full ordered replay; old/new subscriptions partition the history; references stay valid (E1)

use crate::common::*;
use crate::mcx::{self, Instance, Outcome};
use crate::registry::{ScenarioDef, Tier};
use futures::Stream;
use reactive_mutiny::prelude::advanced::*;
use std::pin::Pin;
use std::sync::{Arc, Mutex};
use std::task::{Context, Poll};

#[derive(Debug, Clone, Copy, PartialEq, Eq)]
pub enum Sub { NewOnly, Split, Joined }
impl Sub { fn name(self) -> &'static str { match self { Sub::NewOnly => "new", Sub::Split => "split", Sub::Joined => "joined" } } }

#[derive(Debug, Clone)]
pub struct Spec {
    /// events sent before the run starts
    pub history: usize,
    pub producers: usize,
    pub sends: usize,
    pub sub: Sub,
    pub polls: usize,
    /// entry point of producer i = eps[i % len]
    pub eps: Vec<Ep>,
}

type Chan = ChannelMultiMmapLog<u32, 4>;
type St = MutinyStream<'static, u32, Chan, &'static u32>;
/// (listener code, value at the time it was yielded, address)
type Yields = Arc<Mutex<Vec<(i64, u32, usize)>>>;

fn poll_rec(stream: &mut St, cid: i64, yields: &Yields, waker: &std::task::Waker) -> Poll<Option<&'static u32>> {
    let r = poll_logged(stream, waker, cid);
    if let Poll::Ready(Some(item)) = &r { yields.lock().unwrap().push((cid, **item, *item as *const u32 as usize)) }
    r
}

fn make(spec: Spec) -> Instance {
    let name = chan_name("c09");
    let chan: Arc<Chan> = Chan::new(name.clone());
    cleanup_mmap(&name);
    // listener 0: joined, exists from the start; it defines the total order
    let (joined0, _) = chan.create_stream_for_old_and_new_events();
    for h in 0..spec.history { let _ = chan.send((1 + h) as u32); }
    let yields: Yields = Arc::new(Mutex::new(Vec::new()));
    let streams: Arc<Mutex<Vec<(i64, St)>>> = Arc::new(Mutex::new(vec![(0, joined0)]));
    let mut bodies: Vec<mcx::Body> = Vec::new();
    for p in 0..spec.producers {
        let chan = chan.clone();
        let (ep, sends) = (spec.eps[p % spec.eps.len()], spec.sends);
        bodies.push(Box::new(move || {
            let c = static_ref(&chan);
            for k in 0..sends { multi_send(c, ep, (100 * (p + 1) + k) as u32); }
        }));
    }
    {
        // the late subscriber: listener codes 1 (new-only / joined / the `old` half) and 2 (the `new` half)
        let (chan, yields, streams, sub, polls) = (chan.clone(), yields.clone(), streams.clone(), spec.sub, spec.polls);
        bodies.push(Box::new(move || {
            let waker = noop_waker();
            mcx::rec("sub.call", 0, 0);
            let mut mine: Vec<(i64, St)> = match sub {
                Sub::NewOnly => vec![(1, chan.create_stream_for_new_events().0)],
                Sub::Joined => vec![(1, chan.create_stream_for_old_and_new_events().0)],
                Sub::Split => { let (old, new) = chan.create_streams_for_old_and_new_events(); vec![(1, old.0), (2, new.0)] }
            };
            mcx::rec("sub.ret", 0, 0);
            for _ in 0..polls {
                for (cid, s) in mine.iter_mut() { let _ = poll_rec(s, *cid, &yields, &waker); }
            }
            streams.lock().unwrap().append(&mut mine);
        }));
    }
    {
        // the early joined listener is consumed concurrently as well (at a different speed: one poll per step of its own)
        let (yields, streams, polls) = (yields.clone(), streams.clone(), spec.polls);
        bodies.push(Box::new(move || {
            let waker = noop_waker();
            let mut s0 = { let mut g = streams.lock().unwrap(); let pos = g.iter().position(|x| x.0 == 0).unwrap(); g.remove(pos) };
            for _ in 0..polls { let _ = poll_rec(&mut s0.1, 0, &yields, &waker); }
            streams.lock().unwrap().push(s0);
        }));
    }
    let sp = spec.clone();
    Instance { bodies, check: Box::new(move |out| {
        // sequential drain of every stream; remember whether it ended by itself
        let waker = noop_waker();
        let mut cx = Context::from_waker(&waker);
        let mut ended: Vec<(i64, bool)> = Vec::new();
        let mut drained: Vec<(i64, u32)> = Vec::new();
        let mut g = streams.lock().unwrap();
        g.sort_by_key(|x| x.0);
        for (cid, s) in g.iter_mut() {
            let mut end = false;
            for _ in 0..32 {
                match Pin::new(&mut *s).poll_next(&mut cx) {
                    Poll::Ready(Some(item)) => { drained.push((*cid, *item)); yields.lock().unwrap().push((*cid, *item, item as *const u32 as usize)) },
                    Poll::Ready(None) => { end = true; break },
                    Poll::Pending => break,
                }
            }
            ended.push((*cid, end));
        }
        let v = judge(out, &sp, &yields.lock().unwrap(), &ended);
        g.clear();
        let _ = &chan;
        v
    }) }
}

fn judge(out: &Outcome, sp: &Spec, yields: &[(i64, u32, usize)], ended: &[(i64, bool)]) -> Vec<(String, String)> {
    let mut v = Vec::new();
    for (t, p) in out.panics.iter().enumerate() { if let Some(p) = p { v.push(("panic".to_string(), format!("thread {t}: {p}"))) } }
    if out.terminal != mcx::Terminal::Done { v.push(("no-termination".into(), format!("execution ended {:?}", out.terminal))); return v }
    let seq = |cid: i64| -> Vec<u32> { yields.iter().filter(|y| y.0 == cid).map(|y| y.1).collect() };
    let mut accepted: Vec<u32> = (0..sp.history).map(|h| (1 + h) as u32).collect();
    accepted.extend(out.log.iter().filter(|r| r.op == "s.ret" && r.b == 1).map(|r| r.a as u32));
    let ctx = || format!("{} | yields {:?}", mcx::fmt_log(&out.log), yields.iter().map(|y| (y.0, y.1)).collect::<Vec<_>>());
    // the total order: what the listener that existed from the start yielded
    let total = seq(0);
    let mut a = accepted.clone(); a.sort();
    let mut t = total.clone(); t.sort();
    if a != t {
        let kind = if t.windows(2).any(|w| w[0] == w[1]) { "duplicate-delivery" } else if t.iter().any(|x| !a.contains(x)) { "alien-delivery" } else { "lost-event" };
        v.push((kind.into(), format!("accepted {:?}, the joined listener yielded {:?}: {}", accepted, total, ctx())));
        return v;
    }
    // history first and in order; each producer's events in its send order
    if total.iter().take(sp.history).copied().collect::<Vec<_>>() != (0..sp.history).map(|h| (1 + h) as u32).collect::<Vec<_>>() {
        v.push(("order".into(), format!("the events sent before the run are not the head of the log: {:?}", total)));
    }
    for p in 1..=4u32 {
        let sub: Vec<u32> = total.iter().copied().filter(|x| x / 100 == p).collect();
        if sub.windows(2).any(|w| w[0] > w[1]) { v.push(("order".into(), format!("producer {p}'s events are out of order in the log: {:?}", total))) }
    }
    match sp.sub {
        Sub::Joined => {
            if seq(1) != total { v.push(("listeners-disagree".into(), format!("a listener subscribed for old+new events yielded {:?}, the first listener {:?}: {}", seq(1), total, ctx()))) }
        }
        Sub::NewOnly => {
            let s = seq(1);
            if !total.ends_with(&s) { v.push(("not-a-suffix".into(), format!("the new-events listener yielded {:?}, which is not a gapless suffix of {:?}: {}", s, total, ctx()))) }
            // everything sent after the subscription returned belongs to it; nothing accepted before the subscription began does
            let ret = out.log.iter().find(|r| r.op == "sub.ret").map(|r| r.stamp).unwrap_or(0);
            let call = out.log.iter().find(|r| r.op == "sub.call").map(|r| r.stamp).unwrap_or(0);
            for r in out.log.iter().filter(|r| r.op == "s.call" && r.stamp > ret) {
                if accepted.contains(&(r.a as u32)) && !s.contains(&(r.a as u32)) { v.push(("missed-new-event".into(), format!("event {} was sent after the subscription returned but the new-events listener never yielded it: {}", r.a, ctx()))) }
            }
            for r in out.log.iter().filter(|r| r.op == "s.ret" && r.b == 1 && r.stamp < call) {
                if s.contains(&(r.a as u32)) { v.push(("old-event-in-new".into(), format!("event {} was accepted before the subscription began but the new-events listener yielded it: {}", r.a, ctx()))) }
            }
            if (0..sp.history).any(|h| s.contains(&((1 + h) as u32))) { v.push(("old-event-in-new".into(), format!("the new-events listener yielded history events: {:?}", s))) }
        }
        Sub::Split => {
            let (old, new) = (seq(1), seq(2));
            let mut both = old.clone(); both.extend(new.iter());
            if both != total {
                let kind = if old.iter().any(|x| new.contains(x)) { "split-overlap" } else if both.len() < total.len() { "split-gap" } else { "split-order" };
                v.push((kind.into(), format!("old {:?} ++ new {:?} is not the log {:?}: {}", old, new, total, ctx())));
            }
            if ended.iter().any(|e| e.0 == 1 && !e.1) { v.push(("old-stream-did-not-end".into(), format!("the old-events stream did not answer end-of-stream after its last event: {}", ctx()))) }
            if ended.iter().any(|e| e.0 == 2 && e.1) { v.push(("new-stream-ended".into(), "the new-events stream ended by itself".to_string())) }
            // the split point lies between what was accepted before the call and what was sent after its return
            let ret = out.log.iter().find(|r| r.op == "sub.ret").map(|r| r.stamp).unwrap_or(0);
            let call = out.log.iter().find(|r| r.op == "sub.call").map(|r| r.stamp).unwrap_or(0);
            for r in out.log.iter().filter(|r| r.op == "s.call" && r.stamp > ret) { if old.contains(&(r.a as u32)) { v.push(("new-event-in-old".into(), format!("event {} was sent after the subscription returned but is in the old half: {}", r.a, ctx()))) } }
            for r in out.log.iter().filter(|r| r.op == "s.ret" && r.b == 1 && r.stamp < call) { if new.contains(&(r.a as u32)) { v.push(("old-event-in-new".into(), format!("event {} was accepted before the subscription began but is in the new half: {}", r.a, ctx()))) } }
        }
    }
    if ended.iter().any(|e| e.0 == 0 && e.1) { v.push(("joined-stream-ended".into(), "the old+new listener ended by itself".to_string())) }
    // references: one address per event, distinct events at distinct addresses, and the value behind every reference is unchanged now
    for y in yields {
        let now = unsafe { *(y.2 as *const u32) };
        if now != y.1 { v.push(("reference-changed".into(), format!("a reference yielded with value {} now reads {}: {}", y.1, now, ctx()))) }
    }
    for (i, x) in yields.iter().enumerate() {
        for y in yields.iter().skip(i + 1) {
            if x.1 == y.1 && x.2 != y.2 { v.push(("different-allocation".into(), format!("event {} was handed out at two addresses", x.1))) }
            if x.1 != y.1 && x.2 == y.2 { v.push(("shared-storage".into(), format!("events {} and {} were handed out at the same address", x.1, y.1))) }
        }
    }
    v.dedup();
    v
}

pub fn scenarios(tier: Tier) -> Vec<ScenarioDef> {
    let mut defs = Vec::new();
    // (history, producers, sends each, polls)
    let mut ladder: Vec<(usize, usize, usize, usize)> = vec![(1, 1, 2, 2), (1, 2, 1, 2)];
    if tier == Tier::Thorough { ladder.push((0, 2, 2, 3)); ladder.push((2, 2, 1, 3)); }
    for sub in [Sub::NewOnly, Sub::Split, Sub::Joined] {
        for (ep_name, eps) in [("send", vec![Ep::Send]), ("send_with", vec![Ep::SendWith]), ("mixed", vec![Ep::SendWith, Ep::Send])] {
            if tier == Tier::Quick && ep_name == "send" { continue }
            for (idx, &(history, producers, sends, polls)) in ladder.iter().enumerate() {
                let spec = Spec { history, producers, sends, sub, polls, eps: eps.clone() };
                let threads = producers + 2;
                let bound = match tier { Tier::Quick => if threads <= 3 { 2 } else { 1 }, Tier::Thorough => if threads <= 3 { 3 } else { 2 } };
                defs.push(ScenarioDef { prop: "C09", family: format!("{}/{}", sub.name(), ep_name), rung: format!("H{history}-P{producers}-E{sends}-N{polls}"), rung_idx: idx, max_bound: bound,
                    make: Arc::new(move || make(spec.clone())) });
            }
        }
    }
    defs
}
