//! C12 (part) -- log-channel executors for old + new events: with a sequential transition no new event is processed before every old one
//! has been; each of the two executors' close callbacks runs exactly once, after its last item (E3)
//!
//! The other parts of C12 are judged on the executions of c06.rs (Uni latch, Multi executors removed one by one or all at once) and of
//! c11.rs (the executor itself, all instrument settings).

use crate::asyncx::{self, *};
use crate::c06::{Exec, ExecEnd};
use crate::common::*;
use crate::registry::Tier;
use futures::StreamExt;
use reactive_mutiny::multi::Multi;
use reactive_mutiny::prelude::advanced::*;
use reactive_mutiny::stream_executor::{ExecutorStatus, StreamExecutorStats};
use std::sync::atomic::Ordering::Relaxed;
use std::sync::{Arc, Mutex};
use std::time::Duration;

#[derive(Debug, Clone)]
pub struct Cfg { pub exec: Exec, pub limit: u32, pub sequential: bool, pub old: Vec<Class>, pub new: Vec<Class>, pub new_delay_ms: u64 }

type Ends = Arc<Mutex<Vec<ExecEnd>>>;
fn end_cb(ends: Ends, slot: usize) -> impl FnOnce(Arc<dyn StreamExecutorStats + Send + Sync>) -> futures::future::BoxFuture<'static, ()> + Send + Sync + 'static {
    move |stats| Box::pin(async move {
        let mut e = ends.lock().unwrap();
        let e = &mut e[slot];
        e.calls += 1; e.at = vnow(); e.status = Some(stats.executor_status().load(Relaxed));
        e.start_delta = stats.execution_start_delta_nanos(); e.finish_delta = stats.execution_finish_delta_nanos();
    })
}

type M = Multi<u32, ChannelMultiMmapLog<u32, 4>, 7, &'static u32>;

fn run(cfg: &Cfg) -> (Probes, Vec<ExecEnd>, bool) {
    let (h, k) = (cfg.old.len(), cfg.new.len());
    let probes = new_probes(h + k);
    let ends: Ends = Arc::new(Mutex::new(vec![ExecEnd::default(); 2]));
    let name = chan_name_unique("c12");
    let (cfg2, p2, e2, name2) = (cfg.clone(), probes.clone(), ends.clone(), name.clone());
    let closed = asyncx::run_virtual(async move {
        let cfg = cfg2;
        let multi: Arc<M> = Arc::new(M::new(name2));
        for v in 0..h { let _ = multi.send(v as u32); }
        let classes: Arc<Vec<Class>> = Arc::new(cfg.old.iter().chain(cfg.new.iter()).copied().collect());
        let (pw, cw) = (p2.clone(), classes.clone());
        let work = move |item: &'static u32| { let v = *item as usize; item_work(v, cw[v], pw.clone()) };
        let (pw, cw) = (p2.clone(), classes.clone());
        let sync_work = move |item: &'static u32| -> Result<u32, BoxErr> {
            let v = *item as usize;
            { let mut pr = pw.lock().unwrap(); let now = vnow(); let it = &mut pr.items[v]; it.started = Some(now); it.completed = Some(now); it.starts += 1; pr.start_order.push(v); }
            if cw[v].is_err() { Err(format!("E{v}").into()) } else { Ok(v as u32) }
        };
        let (cb_old, cb_new) = (end_cb(e2.clone(), 0), end_cb(e2.clone(), 1));
        let pe = p2.clone();
        let r = match cfg.exec {
            Exec::FalFut => { let (w1, w2) = (work.clone(), work.clone()); multi.spawn_oldies_executor(cfg.limit, cfg.sequential, Duration::ZERO, "old", move |s| s.map(move |it| w1(it)), cb_old, "new", move |s| s.map(move |it| w2(it)), cb_new, move |e| { pe.lock().unwrap().on_err.push(e.to_string()); async {} }).await }
            Exec::Fut => { let (w1, w2) = (work.clone(), work.clone()); multi.spawn_futures_oldies_executor(cfg.limit, cfg.sequential, Duration::ZERO, "old", move |s| s.map(move |it| { let f = w1(it); async move { f.await.unwrap_or(u32::MAX) } }), cb_old, "new", move |s| s.map(move |it| { let f = w2(it); async move { f.await.unwrap_or(u32::MAX) } }), cb_new).await }
            Exec::Fal => { let (w1, w2) = (sync_work.clone(), sync_work.clone()); multi.spawn_fallibles_oldies_executor(cfg.limit, cfg.sequential, "old", move |s| s.map(move |it| w1(it)), cb_old, "new", move |s| s.map(move |it| w2(it)), cb_new, move |e| { pe.lock().unwrap().on_err.push(e.to_string()) }).await }
            Exec::Plain => { let (w1, w2) = (sync_work.clone(), sync_work.clone()); multi.spawn_non_futures_non_fallible_oldies_executor(cfg.limit, cfg.sequential, "old", move |s| s.map(move |it| w1(it).unwrap_or(u32::MAX)), cb_old, "new", move |s| s.map(move |it| w2(it).unwrap_or(u32::MAX)), cb_new).await }
        };
        r.expect("spawn oldies executor");
        if cfg.new_delay_ms > 0 { tokio::time::sleep(Duration::from_millis(cfg.new_delay_ms)).await }
        for v in h..h + k { let _ = multi.send(v as u32); }
        // let everything be processed, then close
        tokio::time::sleep(Duration::from_millis(40)).await;
        let closed = tokio::time::timeout(Duration::from_secs(2), multi.close(Duration::ZERO)).await.is_ok();
        tokio::time::sleep(Duration::from_millis(50)).await;
        closed
    });
    cleanup_mmap(&name);
    let p = std::mem::take(&mut *probes.lock().unwrap());
    let e = ends.lock().unwrap().clone();
    (p, e, closed)
}

pub fn judge(cfg: &Cfg) -> Vec<(String, String)> {
    let (p, ends, closed) = run(cfg);
    let h = cfg.old.len();
    let ms = |t: u64| t as f64 / 1e6;
    let ctx = format!("old events {} / new events {} -> started {:?} ms, completed {:?} ms; callbacks (old, new) {:?}", seq_name(&cfg.old), seq_name(&cfg.new),
        p.items.iter().map(|i| i.started.map(ms)).collect::<Vec<_>>(), p.items.iter().map(|i| i.completed.map(ms)).collect::<Vec<_>>(), ends.iter().map(|e| (e.calls, ms(e.at), e.status)).collect::<Vec<_>>());
    asyncx::note_run(p.items.len() as u64 * 3 + 4, asyncx::fingerprint(&(p.items.iter().map(|i| (i.started, i.completed)).collect::<Vec<_>>(), ends.iter().map(|e| (e.calls, e.at)).collect::<Vec<_>>())), ctx.clone());
    let mut v: Vec<(String, String)> = Vec::new();
    if !closed { v.push(("close-never-returns".into(), ctx.clone())); return v }
    for (i, it) in p.items.iter().enumerate() { if it.completed.is_none() { v.push(("event-not-processed".into(), format!("{} event #{i} was never processed: {ctx}", if i < h { "old" } else { "new" }))) } }
    if !v.is_empty() { return v }
    if cfg.sequential {
        let last_old = p.items[..h].iter().filter_map(|i| i.completed).max();
        let first_new = p.items[h..].iter().filter_map(|i| i.started).min();
        if let (Some(o), Some(n)) = (last_old, first_new) {
            let overtaken = p.items[..h].iter().enumerate().filter(|(_, i)| i.completed.unwrap() > n).map(|(i, _)| i).collect::<Vec<_>>();
            // same virtual instant: decide by the order in which things happened
            let order_bad = p.start_order.iter().position(|x| *x >= h).map(|pos| p.start_order[pos..].iter().any(|x| *x < h)).unwrap_or(false);
            if o > n || order_bad { v.push(("new-before-old".into(), format!("sequential transition: a new event started being processed at {} ms, before old event(s) {:?} were done ({} ms): {ctx}", ms(n), overtaken, ms(o)))) }
        }
    }
    for (k, e) in ends.iter().enumerate() {
        let who = if k == 0 { "the old-events executor's close callback" } else { "the new-events executor's close callback" };
        if e.calls == 0 { v.push(("close-callback-missing".into(), format!("{who} never ran: {ctx}"))); continue }
        if e.calls != 1 { v.push(("close-callback-repeated".into(), format!("{who} ran {} times: {ctx}", e.calls))) }
        let mine = if k == 0 { &p.items[..h] } else { &p.items[h..] };
        let last = mine.iter().filter_map(|i| i.completed).max().unwrap_or(0);
        if e.at < last { v.push(("close-callback-early".into(), format!("{who} ran at {} ms, its last item completed at {} ms: {ctx}", ms(e.at), ms(last)))) }
        if e.status != Some(ExecutorStatus::StreamEnded) { v.push(("status".into(), format!("{who} found the executor in state {:?}: {ctx}", e.status))) }
        if e.start_delta == u64::MAX || e.finish_delta == u64::MAX || e.finish_delta < e.start_delta { v.push(("finish-before-start".into(), format!("{who}: start delta {} / finish delta {}: {ctx}", e.start_delta, e.finish_delta))) }
    }
    v
}

pub fn tuples(tier: Tier) -> Vec<Tuple> {
    let mut v = Vec::new();
    let (max_old, max_new) = match tier { Tier::Quick => (2, 2), Tier::Thorough => (3, 2) };
    for exec in [Exec::FalFut, Exec::Fut, Exec::Fal, Exec::Plain] {
        let alphabet = if exec.futures() { vec![Class::Ok, Class::SlowOk, Class::LateOk] } else { vec![Class::Ok] };
        for limit in [1u32, 2] {
            for sequential in [true, false] {
                for old in sequences(&alphabet, max_old) { for new in sequences(&alphabet, max_new) { for new_delay_ms in [0u64, 1, 3] {
                    if new.is_empty() && new_delay_ms != 0 { continue }
                    if tier == Tier::Quick && new_delay_ms == 3 { continue }
                    let cfg = Cfg { exec, limit, sequential, old: old.clone(), new: new.clone(), new_delay_ms };
                    v.push(Tuple { family: format!("multi-ML-oldies/{}/{}", exec.name(), if sequential { "sequential" } else { "parallel" }), rung: format!("limit{limit}-delay{new_delay_ms}-old_{}-new_{}", seq_name(&old), seq_name(&new)), run: Box::new(move || judge(&cfg)) });
                } } }
            }
        }
    }
    v
}
