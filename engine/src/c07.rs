//! C07 -- cancel / end terminates exactly the targeted streams, even parked ones; untargeted ones keep receiving (E1)

use crate::common::*;
use crate::mcx::{self, Instance, Outcome, Status};
use crate::registry::{ScenarioDef, Tier};
use reactive_mutiny::prelude::advanced::*;
use std::sync::Arc;
use std::time::Duration;

#[derive(Debug, Clone, Copy, PartialEq, Eq)]
pub enum Action { CancelAll, EndOne(u32) }
impl Action {
    fn name(self) -> String { match self { Action::CancelAll => "cancel_all".into(), Action::EndOne(i) => format!("end_stream{i}") } }
    fn targets(self, s: usize) -> bool { match self { Action::CancelAll => true, Action::EndOne(i) => i as usize == s } }
}

#[derive(Debug, Clone)]
pub struct Spec {
    pub uni: Option<UniKind>,
    pub multi: Option<MultiKind>,
    pub b: usize,
    pub m: usize,
    pub streams: usize,
    pub action: Action,
    /// events sent by a concurrent producer
    pub events: usize,
    /// the requester sends one more event after its request returned (only meaningful when a stream is left untargeted)
    pub late: bool,
    /// the consumer of an ended stream immediately subscribes again (with every other id in use it gets the same id back,
    /// possibly while the end request is still completing): the new stream was never targeted and must not end
    pub recreate: bool,
    /// streams created first (lowest ids) and dropped again before the run without ever having been told to end
    pub predropped: usize,
}

/// runs a future of the crate on a private current-thread tokio runtime whose clock is paused (time advances when idle)
pub fn on_paused_tokio<F: std::future::Future>(fut: F) -> F::Output {
    let rt = tokio::runtime::Builder::new_current_thread().enable_time().start_paused(true).build().expect("tokio runtime");
    rt.block_on(fut)
}

macro_rules! body_common { ($chan:ident, $spec:ident, $bodies:ident, $send:ident, $streams:expr, $create:ident) => {{
    // thread 0: the requester
    {
        let chan = $chan.clone();
        let (action, late, recreate) = ($spec.action, $spec.late, $spec.recreate);
        $bodies.push(Box::new(move || {
            let c = static_ref(&chan);
            mcx::rec("req.call", 0, 0);
            match action {
                Action::CancelAll => c.cancel_all_streams(),
                // with re-subscription the id may never be seen vacant: the requester gives up after 6 virtual milliseconds (it drops the future)
                Action::EndOne(id) if recreate => { let r = on_paused_tokio(async { tokio::time::timeout(Duration::from_millis(6), c.gracefully_end_stream(id, Duration::ZERO)).await }); mcx::rec("req.ended", id as i64, r.map(|ok| ok as i64).unwrap_or(-1)) }
                Action::EndOne(id) => { let ok = on_paused_tokio(c.gracefully_end_stream(id, Duration::ZERO)); mcx::rec("req.ended", id as i64, ok as i64) }
            }
            mcx::rec("req.ret", 0, 0);
            if late { $send(c, Ep::Send, 900); }
        }) as mcx::Body);
    }
    // thread 1: concurrent producer (possibly with nothing to send)
    {
        let chan = $chan.clone();
        let events = $spec.events;
        $bodies.push(Box::new(move || {
            let c = static_ref(&chan);
            for k in 0..events { $send(c, Ep::Send, (100 + k) as u32); }
        }) as mcx::Body);
    }
    // threads 2..: driven streams
    for (s, stream) in $streams.into_iter().enumerate() {
        let chan = $chan.clone();
        let recreate = $spec.recreate;
        $bodies.push(Box::new(move || {
            driven_consumer(stream, s as i64);
            if recreate {
                let (again, id) = chan.$create();
                mcx::rec("recreated", id as i64, s as i64);
                driven_consumer(again, 10 + s as i64);
            }
        }) as mcx::Body);
    }
    // judge
    {
        let chan = $chan.clone();
        $bodies.push(Box::new(move || {
            let q = mcx::wait_quiescent();
            for (t, tv) in q.threads.iter().enumerate() {
                let code = match tv.status { Status::Finished => 0, Status::Parked => 1, _ => if tv.spinning { 3 } else { 2 } };
                mcx::rec("q.thread", t as i64, code);
            }
            mcx::rec("q.running", chan.running_streams_count() as i64, 0);
            chan.cancel_all_streams();
            let q = mcx::wait_quiescent();
            for (t, tv) in q.threads.iter().enumerate() {
                let code = match tv.status { Status::Finished => 0, Status::Parked => 1, _ => if tv.spinning { 3 } else { 2 } };
                mcx::rec("q2.thread", t as i64, code);
            }
            mcx::rec("q2.running", chan.running_streams_count() as i64, 0);
            mcx::rec("q2.open", chan.is_channel_open() as i64, 0);
        }) as mcx::Body);
    }
}} }

fn make_uni<C>(spec: Spec) -> Instance
where C: FullDuplexUniChannel<ItemType = u32> + Send + Sync + 'static,
      C::DerivedItemType: Val + Send + 'static {
    let chan: Arc<C> = C::new("c07");
    let mut bodies: Vec<mcx::Body> = Vec::new();
    let gone: Vec<_> = (0..spec.predropped).map(|_| chan.create_stream().0).collect();
    let streams: Vec<_> = (0..spec.streams).map(|_| chan.create_stream().0).collect();
    drop(gone);
    body_common!(chan, spec, bodies, uni_send, streams, create_stream);
    let sp = spec.clone();
    Instance { bodies, check: Box::new(move |out| {
        let mut v = judge(out, &sp, false);
        // the ids must be reusable: MAX_STREAMS fresh streams can be created once everything ended
        if out.terminal == mcx::Terminal::Done && v.is_empty() {
            let ch = chan.clone();
            let m = sp.m;
            let r = std::panic::catch_unwind(std::panic::AssertUnwindSafe(move || { let s: Vec<_> = (0..m).map(|_| ch.create_stream()).collect(); let n = ch.running_streams_count(); drop(s); n }));
            match r { Ok(n) if n as usize == m => {}, Ok(n) => v.push(("stream-accounting".into(), format!("{m} streams re-created after the end, running_streams_count() = {n}"))),
                      Err(_) => v.push(("ids-not-reusable".into(), format!("creating {m} streams after all streams ended and were dropped panicked"))) }
        }
        v
    }) }
}

fn make_multi<C>(spec: Spec) -> Instance
where C: FullDuplexMultiChannel<ItemType = u32> + Send + Sync + 'static,
      C::DerivedItemType: Val + Send + 'static {
    let name = chan_name("c07");
    let chan: Arc<C> = C::new(name.clone());
    if spec.multi == Some(MultiKind::ML) { cleanup_mmap(&name) }
    let mut bodies: Vec<mcx::Body> = Vec::new();
    let gone: Vec<_> = (0..spec.predropped).map(|_| chan.create_stream_for_new_events().0).collect();
    let streams: Vec<_> = (0..spec.streams).map(|_| chan.create_stream_for_new_events().0).collect();
    drop(gone);
    body_common!(chan, spec, bodies, multi_send, streams, create_stream_for_new_events);
    let sp = spec.clone();
    Instance { bodies, check: Box::new(move |out| {
        let mut v = judge(out, &sp, true);
        if out.terminal == mcx::Terminal::Done && v.is_empty() {
            let ch = chan.clone();
            let m = sp.m;
            let r = std::panic::catch_unwind(std::panic::AssertUnwindSafe(move || { let s: Vec<_> = (0..m).map(|_| ch.create_stream_for_new_events()).collect(); let n = ch.running_streams_count(); drop(s); n }));
            match r { Ok(n) if n as usize == m => {}, Ok(n) => v.push(("stream-accounting".into(), format!("{m} streams re-created after the end, running_streams_count() = {n}"))),
                      Err(_) => v.push(("ids-not-reusable".into(), format!("creating {m} streams after all streams ended and were dropped panicked"))) }
        }
        v
    }) }
}

fn judge(out: &Outcome, sp: &Spec, multi: bool) -> Vec<(String, String)> {
    let mut v = Vec::new();
    for (t, p) in out.panics.iter().enumerate() {
        if let Some(p) = p { v.push(("panic".to_string(), format!("thread {t}: {p}"))) }
    }
    let first_consumer = 2usize;
    let st1: Vec<(i64, i64)> = out.log.iter().filter(|r| r.op == "q.thread").map(|r| (r.a, r.b)).collect();
    if st1.is_empty() { return v }
    let code = |t: usize| st1.iter().find(|x| x.0 as usize == t).map(|x| x.1).unwrap_or(-1);
    if sp.recreate {
        // the requester may legitimately still be waiting for the id to become vacant (it was taken again at once); what matters:
        // the re-created stream was never targeted, so its consumer must still be there
        for s in 0..sp.streams {
            if out.log.iter().any(|r| r.op == "recreated" && r.b == s as i64) && code(first_consumer + s) == 0 {
                v.push(("untargeted-ended".into(), format!("the stream created after stream {s} had ended was never targeted, yet it answered end-of-stream: {}", mcx::fmt_log(&out.log))));
            }
        }
        return v;
    }
    if (0..first_consumer + sp.streams).any(|t| code(t) >= 2) {
        v.push(("stall".into(), format!("threads blocked spinning at quiescence: {:?}", st1)));
        return v;
    }
    let qstamp = out.log.iter().find(|r| r.op == "q.running").map(|r| r.stamp).unwrap_or(u32::MAX);
    let requester_done = code(0) == 0;
    let producer_done = code(1) == 0;
    if requester_done {
        for s in 0..sp.streams {
            if sp.action.targets(s) && code(first_consumer + s) == 1 {
                v.push(("targeted-parked".into(), format!("{} returned, yet targeted stream {s} is parked with nobody left to wake it: {}", sp.action.name(), mcx::fmt_log(&out.log))));
            }
        }
    }
    // what was yielded is a sub-multiset of what was accepted, without repeats (per listener for Multi)
    let accepted: Vec<i64> = out.log.iter().filter(|r| r.op == "s.ret" && r.b == 1).map(|r| r.a).collect();
    for s in 0..sp.streams as i64 {
        let got: Vec<i64> = out.log.iter().filter(|r| r.op == "got" && (!multi || r.b == s)).map(|r| r.a).collect();
        let mut g = got.clone(); g.sort();
        if g.windows(2).any(|w| w[0] == w[1]) { v.push(("duplicate-delivery".into(), format!("yielded {:?}", got))) }
        if got.iter().any(|x| !accepted.contains(x)) { v.push(("alien-delivery".into(), format!("yielded {:?}, accepted {:?}", got, accepted))) }
        if !multi { break }
    }
    // a targeted stream, once it answered end-of-stream, was dropped by its consumer: the count at the first quiescence must
    // equal the number of consumers that are not finished
    if requester_done && producer_done {
        let alive = (0..sp.streams).filter(|s| code(first_consumer + s) != 0).count() as i64;
        let running = out.log.iter().find(|r| r.op == "q.running").map(|r| r.a).unwrap_or(-1);
        if running != alive {
            v.push(("stream-accounting".into(), format!("running_streams_count() = {running} with {alive} live stream(s) at quiescence")));
        }
        // untargeted streams keep receiving: the late event (sent after the request returned) must have reached them
        if sp.late && matches!(sp.action, Action::EndOne(_)) {
            let late_accepted = out.log.iter().any(|r| r.op == "s.ret" && r.a == 900 && r.b == 1 && r.stamp < qstamp);
            for s in 0..sp.streams {
                if sp.action.targets(s) { continue }
                let parked = code(first_consumer + s) == 1;
                let got_late = out.log.iter().any(|r| r.op == "got" && r.a == 900 && r.stamp < qstamp && (!multi || r.b == s as i64));
                if late_accepted && parked && !got_late {
                    v.push(("untargeted-starved".into(), format!("stream {s} was not targeted by {}, is parked, and never yielded the event accepted afterwards: {}", sp.action.name(), mcx::fmt_log(&out.log))));
                }
                if code(first_consumer + s) == 0 {
                    v.push(("untargeted-ended".into(), format!("stream {s} was not targeted by {} but ended: {}", sp.action.name(), mcx::fmt_log(&out.log))));
                }
            }
        }
    }
    // after the judge's cancel_all_streams() everything must end
    let st2: Vec<(i64, i64)> = out.log.iter().filter(|r| r.op == "q2.thread").map(|r| (r.a, r.b)).collect();
    if !st2.is_empty() {
        for s in 0..sp.streams {
            let c = st2.iter().find(|x| x.0 as usize == first_consumer + s).map(|x| x.1).unwrap_or(-1);
            if c == 1 && code(0) == 0 && code(1) == 0 {
                v.push(("parked-after-cancel-all".into(), format!("stream {s} is still parked after cancel_all_streams(): {}", mcx::fmt_log(&out.log))));
            }
        }
        let all_gone = (0..sp.streams).all(|s| st2.iter().find(|x| x.0 as usize == first_consumer + s).map(|x| x.1) == Some(0));
        if all_gone {
            let running = out.log.iter().find(|r| r.op == "q2.running").map(|r| r.a).unwrap_or(-1);
            let open = out.log.iter().find(|r| r.op == "q2.open").map(|r| r.a).unwrap_or(-1);
            if running != 0 { v.push(("stream-accounting".into(), format!("running_streams_count() = {running} after every stream ended and was dropped"))) }
            if open != 0 { v.push(("still-open".into(), "is_channel_open() is true after every stream was cancelled".to_string())) }
        }
    }
    v
}

pub fn scenarios(tier: Tier) -> Vec<ScenarioDef> {
    let mut defs = Vec::new();
    let mut kinds: Vec<(Option<UniKind>, Option<MultiKind>)> = UniKind::ALL.iter().map(|k| (Some(*k), None)).collect();
    kinds.extend(MultiKind::ALL.iter().map(|k| (None, Some(*k))));
    for (uni, multi) in kinds {
        let kname = match (uni, multi) { (Some(k), _) => format!("uni-{}", k.name()), (_, Some(k)) => format!("multi-{}", k.name()), _ => unreachable!() };
        for (streams, action, late) in [(1usize, Action::CancelAll, false), (2, Action::CancelAll, false), (1, Action::EndOne(0), false), (2, Action::EndOne(0), true), (2, Action::EndOne(1), true)] {
            let family = format!("{kname}/{}/S{streams}{}", action.name(), if late { "-late" } else { "" });
            for events in 0..=2usize {
                if tier == Tier::Quick && events == 2 && streams == 2 { continue }
                if tier == Tier::Quick && multi == Some(MultiKind::ML) && events > 1 { continue }
                let spec = Spec { uni, multi, b: 8, m: 2, streams, action, events, late, recreate: false, predropped: 0 };
                let rung = format!("E{events}");
                let threads = 1 + (events > 0) as usize + streams;
                let bound = match tier { Tier::Quick => if threads <= 2 { 2 } else { 1 }, Tier::Thorough => if threads <= 2 { 3 } else if threads == 3 { 3 } else { 2 } };
                let sp = spec.clone();
                defs.push(ScenarioDef { prop: "C07", family: family.clone(), rung, rung_idx: events, max_bound: bound,
                    make: Arc::new(move || { let sp = sp.clone(); match (sp.uni, sp.multi) {
                        (Some(k), _) => crate::dispatch_uni!(k, sp.b, sp.m, make_uni(sp)),
                        (_, Some(k)) => crate::dispatch_multi!(k, sp.b, sp.m, make_multi(sp)),
                        _ => unreachable!() } }) });
            }
        }
    }
    // streams with the lowest ids went away earlier without ever having been told to end; cancel_all_streams must still reach the live ones
    let mut kinds: Vec<(Option<UniKind>, Option<MultiKind>)> = UniKind::ALL.iter().map(|k| (Some(*k), None)).collect();
    kinds.extend(MultiKind::ALL.iter().map(|k| (None, Some(*k))));
    for (uni, multi) in kinds {
        if tier == Tier::Quick && multi == Some(MultiKind::ML) { continue }
        let kname = match (uni, multi) { (Some(k), _) => format!("uni-{}", k.name()), (_, Some(k)) => format!("multi-{}", k.name()), _ => unreachable!() };
        for (m, predropped, streams) in [(2usize, 1usize, 1usize), (4, 2, 2)] {
            for events in 0..=1usize {
                if tier == Tier::Quick && streams == 2 { continue }
                let spec = Spec { uni, multi, b: 8, m, streams, action: Action::CancelAll, events, late: false, recreate: false, predropped };
                let threads = 1 + (events > 0) as usize + streams;
                let bound = match tier { Tier::Quick => if threads <= 2 { 2 } else { 1 }, Tier::Thorough => if threads <= 3 { 3 } else { 2 } };
                defs.push(ScenarioDef { prop: "C07", family: format!("{kname}/cancel_all/M{m}-S{streams}-after-{predropped}-dropped"), rung: format!("E{events}"), rung_idx: events, max_bound: bound,
                    make: Arc::new(move || { let sp = spec.clone(); match (sp.uni, sp.multi) {
                        (Some(k), _) => crate::dispatch_uni!(k, sp.b, sp.m, make_uni(sp)),
                        (_, Some(k)) => crate::dispatch_multi!(k, sp.b, sp.m, make_multi(sp)),
                        _ => unreachable!() } }) });
            }
        }
    }
    // re-subscription racing the completion of the end request (MAX_STREAMS = 1: the same id comes back)
    let mut kinds: Vec<(Option<UniKind>, Option<MultiKind>)> = UniKind::ALL.iter().map(|k| (Some(*k), None)).collect();
    kinds.extend(MultiKind::ALL.iter().map(|k| (None, Some(*k))));
    for (uni, multi) in kinds {
        if tier == Tier::Quick && multi == Some(MultiKind::ML) { continue }
        let kname = match (uni, multi) { (Some(k), _) => format!("uni-{}", k.name()), (_, Some(k)) => format!("multi-{}", k.name()), _ => unreachable!() };
        for events in 0..=1usize {
            let spec = Spec { uni, multi, b: 8, m: 1, streams: 1, action: Action::EndOne(0), events, late: false, recreate: true, predropped: 0 };
            let bound = match tier { Tier::Quick => 2, Tier::Thorough => 3 };
            defs.push(ScenarioDef { prop: "C07", family: format!("{kname}/end_stream0/M1-S1-recreate"), rung: format!("E{events}"), rung_idx: events, max_bound: bound,
                make: Arc::new(move || { let sp = spec.clone(); match (sp.uni, sp.multi) {
                    (Some(k), _) => crate::dispatch_uni!(k, sp.b, sp.m, make_uni(sp)),
                    (_, Some(k)) => crate::dispatch_multi!(k, sp.b, sp.m, make_multi(sp)),
                    _ => unreachable!() } }) });
        }
    }
    defs
}
