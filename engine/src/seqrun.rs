//! Fan-out of E2 configurations over threads and folding of the results into a report (kept apart from seqx.rs, which is also
//! compiled into the sanitizer build of the C05 histories).

use crate::master::{Report, Viol};
use crate::seqx::*;
use serde_json::{json, Value};
use std::collections::{HashSet, VecDeque};
use std::time::Instant;

/// runs every configuration (in parallel threads) and folds the results into a report
pub fn run_configs(prop: &str, tier: crate::registry::Tier, cfgs: Vec<Config>, wall_cap_s: u64, max_states: usize, rep: &mut Report) {
    let deadline = Instant::now() + std::time::Duration::from_secs(wall_cap_s);
    let cfgs: Vec<std::sync::Arc<Config>> = cfgs.into_iter().map(std::sync::Arc::new).collect();
    let queue = std::sync::Arc::new(std::sync::Mutex::new((0..cfgs.len()).collect::<VecDeque<usize>>()));
    let results = std::sync::Arc::new(std::sync::Mutex::new(Vec::new()));
    let nthreads = std::thread::available_parallelism().map(|n| n.get()).unwrap_or(4).min(16).min(cfgs.len().max(1));
    // what every thread is executing right now: (configuration, history, since when) -- an operation of the subject that never returns
    // would otherwise hang the whole run (the subject runs in-process here)
    struct Slot { cfg: usize, hist: Vec<usize>, since: Instant, cpu0: f64, active: bool }
    let slots: Vec<std::sync::Arc<std::sync::Mutex<Slot>>> = (0..nthreads).map(|_| std::sync::Arc::new(std::sync::Mutex::new(Slot { cfg: 0, hist: Vec::new(), since: Instant::now(), cpu0: 0.0, active: false }))).collect();
    let hang_after = std::time::Duration::from_secs(std::env::var("VH_SEQ_HANG_S").ok().and_then(|s| s.parse().ok()).unwrap_or(60));
    let mut handles = Vec::new();
    for t in 0..nthreads {
        let (queue, results, cfgs, slot) = (queue.clone(), results.clone(), cfgs.clone(), slots[t].clone());
        handles.push(std::thread::Builder::new().stack_size(8 << 20).spawn(move || {
            loop {
                let Some(i) = queue.lock().unwrap().pop_front() else { break };
                let r = explore_with(&cfgs[i], deadline, max_states, |h| { let mut s = slot.lock().unwrap(); s.cfg = i; s.hist = h.to_vec(); s.since = Instant::now(); s.cpu0 = crate::master::cpu_seconds(); s.active = true; });
                slot.lock().unwrap().active = false;
                results.lock().unwrap().push((i, r));
            }
        }).unwrap());
    }
    let mut abandoned = vec![false; nthreads];
    let mut hung: Vec<(usize, Vec<usize>)> = Vec::new();
    loop {
        std::thread::sleep(std::time::Duration::from_millis(100));
        for t in 0..nthreads {
            if abandoned[t] || handles[t].is_finished() { continue }
            let s = slots[t].lock().unwrap();
            // (the process must also have burnt CPU meanwhile: a stopped or starved process is not a hung operation)
            if s.active && s.since.elapsed() > hang_after && crate::master::cpu_seconds() - s.cpu0 > hang_after.as_secs_f64() / 2.0 { abandoned[t] = true; hung.push((s.cfg, s.hist.clone())) }
        }
        if (0..nthreads).all(|t| abandoned[t] || handles[t].is_finished()) { break }
    }
    // threads stuck inside the subject are left behind (they end with the process)
    for (t, h) in handles.into_iter().enumerate() { if !abandoned[t] { let _ = h.join(); } }
    if !queue.lock().unwrap().is_empty() { rep.exhaustive = false }
    for (i, hist) in hung {
        let cfg = &cfgs[i];
        rep.exhaustive = false;
        // names of the operations: the prefix is known to return (it was executed before), the last one is looked up, not executed
        let names = match replay(cfg, &hist[..hist.len().saturating_sub(1)]) {
            Ok((sys, mut names, _)) => { let en = sys.enabled(); names.push(hist.last().and_then(|c| en.get(*c).cloned()).unwrap_or_else(|| "?".into())); names }
            Err(_) => hist.iter().map(|c| format!("#{c}")).collect(),
        };
        rep.violations.push(Viol { family: cfg.name.clone(), rung: format!("D{}", hist.len()), kind: "hang".into(),
            detail: format!("the last operation of this history (or the check that follows it) did not return within {} s -- history: {}", hang_after.as_secs(), names.join(", ")),
            replay: json!({"engine": "seqx", "prop": prop, "tier": tier.name(), "config": cfg.name, "choices": hist, "operations": names}) });
    }
    let mut results = std::mem::take(&mut *results.lock().unwrap());
    results.sort_by_key(|x| x.0);
    let mut per_cfg = Vec::new();
    let mut outcomes: HashSet<String> = HashSet::new();
    let mut all_fix = true;
    for (i, r) in results {
        let cfg = &cfgs[i];
        rep.states += r.states;
        rep.transitions += r.transitions;
        rep.traces += r.replays;
        if r.capped { rep.exhaustive = false }
        all_fix &= r.fixpoint;
        per_cfg.push(json!({"config": cfg.name, "states": r.states, "transitions": r.transitions, "max_depth_reached": r.depth, "fixpoint": r.fixpoint, "capped": r.capped}));
        for s in r.samples.iter().take(1) { if rep.samples.len() < 6 { rep.samples.push(json!({"config": cfg.name, "history => observations": s})) } }
        outcomes.extend(r.outcomes);
        for (kind, detail, choices, names) in r.violations {
            rep.violations.push(Viol { family: cfg.name.clone(), rung: format!("D{}", choices.len()), kind, detail: format!("{detail} -- history: {}", names.join(", ")),
                replay: json!({"engine": "seqx", "prop": prop, "tier": tier.name(), "config": cfg.name, "choices": choices, "operations": names}) });
        }
    }
    rep.extra.insert("seqx_configs".into(), Value::Array(per_cfg));
    rep.extra.insert("seqx_all_configs_reached_a_fixpoint".into(), json!(all_fix));
    rep.extra.insert("seqx_distinct_observations".into(), json!(outcomes.len()));
}
