//! Fan-out of E2 configurations over threads and folding of the results into a report (kept apart from seqx.rs, which is also
//! compiled into the sanitizer build of the C05 histories).

use crate::master::{Report, Viol};
use crate::seqx::*;
use serde_json::{json, Value};
use std::collections::{HashSet, VecDeque};
use std::time::Instant;

/// runs every configuration (in parallel threads) and folds the results into a report
pub fn run_configs(prop: &str, tier: crate::registry::Tier, cfgs: Vec<Config>, wall_cap_s: u64, max_states: usize, rep: &mut Report) {
    let deadline = Instant::now() + std::time::Duration::from_secs(wall_cap_s);
    let cfgs: Vec<std::sync::Arc<Config>> = cfgs.into_iter().map(std::sync::Arc::new).collect();
    let queue = std::sync::Arc::new(std::sync::Mutex::new((0..cfgs.len()).collect::<VecDeque<usize>>()));
    let results = std::sync::Arc::new(std::sync::Mutex::new(Vec::new()));
    let nthreads = std::thread::available_parallelism().map(|n| n.get()).unwrap_or(4).min(16).min(cfgs.len().max(1));
    let mut handles = Vec::new();
    for _ in 0..nthreads {
        let (queue, results, cfgs) = (queue.clone(), results.clone(), cfgs.clone());
        handles.push(std::thread::Builder::new().stack_size(8 << 20).spawn(move || {
            loop {
                let Some(i) = queue.lock().unwrap().pop_front() else { break };
                let r = explore(&cfgs[i], deadline, max_states);
                results.lock().unwrap().push((i, r));
            }
        }).unwrap());
    }
    for h in handles { let _ = h.join(); }
    let mut results = std::mem::take(&mut *results.lock().unwrap());
    results.sort_by_key(|x| x.0);
    let mut per_cfg = Vec::new();
    let mut outcomes: HashSet<String> = HashSet::new();
    let mut all_fix = true;
    for (i, r) in results {
        let cfg = &cfgs[i];
        rep.states += r.states;
        rep.transitions += r.transitions;
        rep.traces += r.replays;
        if r.capped { rep.exhaustive = false }
        all_fix &= r.fixpoint;
        per_cfg.push(json!({"config": cfg.name, "states": r.states, "transitions": r.transitions, "max_depth_reached": r.depth, "fixpoint": r.fixpoint, "capped": r.capped}));
        for s in r.samples.iter().take(1) { if rep.samples.len() < 6 { rep.samples.push(json!({"config": cfg.name, "history => observations": s})) } }
        outcomes.extend(r.outcomes);
        for (kind, detail, choices, names) in r.violations {
            rep.violations.push(Viol { family: cfg.name.clone(), rung: format!("D{}", choices.len()), kind, detail: format!("{detail} -- history: {}", names.join(", ")),
                replay: json!({"engine": "seqx", "prop": prop, "tier": tier.name(), "config": cfg.name, "choices": choices, "operations": names}) });
        }
    }
    rep.extra.insert("seqx_configs".into(), Value::Array(per_cfg));
    rep.extra.insert("seqx_all_configs_reached_a_fixpoint".into(), json!(all_fix));
    rep.extra.insert("seqx_distinct_observations".into(), json!(outcomes.len()));
}
