//! C18 -- stand-alone ogre_std stacks and queues are linearizable bounded LIFO / FIFO (E1)

use crate::lin::{self, Discipline, Op, OpKind};
use crate::mcx::{self, Instance};
use crate::registry::{ScenarioDef, Tier};
use reactive_mutiny::ogre_std::ogre_queues::{self, OgreQueue};
use reactive_mutiny::ogre_std::ogre_stacks::{self, OgreStack};
use std::sync::Arc;

#[derive(Debug, Clone, Copy, PartialEq, Eq)]
pub enum Cont { AtomicStack, ParkingLotStack, AtomicQueue, FullSyncQueue }
impl Cont {
    pub fn name(self) -> &'static str { match self { Cont::AtomicStack => "AtomicStack", Cont::ParkingLotStack => "ParkingLotStack", Cont::AtomicQueue => "AtomicQueue", Cont::FullSyncQueue => "FullSyncQueue" } }
    pub fn discipline(self) -> Discipline { match self { Cont::AtomicStack | Cont::ParkingLotStack => Discipline::Lifo, _ => Discipline::Fifo } }
}

pub trait Container: Send + Sync + 'static {
    fn mk() -> Self;
    fn put(&self, v: u32) -> bool;
    fn take(&self) -> Option<u32>;
    fn count(&self) -> usize;
}
impl<const N: usize> Container for ogre_stacks::non_blocking_atomic_stack::Stack<u32, N, false, false> {
    fn mk() -> Self { OgreStack::new("c18".to_string()) }
    fn put(&self, v: u32) -> bool { self.push(v) }
    fn take(&self) -> Option<u32> { self.pop() }
    fn count(&self) -> usize { OgreStack::len(self) }
}
impl<const N: usize> Container for ogre_stacks::non_blocking_parking_lot_stack::Stack<u32, N, false, false> {
    fn mk() -> Self { OgreStack::new("c18".to_string()) }
    fn put(&self, v: u32) -> bool { self.push(v) }
    fn take(&self) -> Option<u32> { self.pop() }
    fn count(&self) -> usize { OgreStack::len(self) }
}
impl<const N: usize> Container for ogre_queues::atomic::NonBlockingQueue<u32, N, 0> {
    fn mk() -> Self { OgreQueue::new("c18") }
    fn put(&self, v: u32) -> bool { self.enqueue(v).is_none() }
    fn take(&self) -> Option<u32> { self.dequeue() }
    fn count(&self) -> usize { OgreQueue::len(self) }
}
impl<const N: usize> Container for ogre_queues::full_sync::NonBlockingQueue<u32, N, 0> {
    fn mk() -> Self { OgreQueue::new("c18") }
    fn put(&self, v: u32) -> bool { self.enqueue(v).is_none() }
    fn take(&self) -> Option<u32> { self.dequeue() }
    fn count(&self) -> usize { OgreQueue::len(self) }
}

#[derive(Debug, Clone)]
pub struct Spec { pub cont: Cont, pub n: usize, pub prefill: usize, pub scripts: Vec<&'static str> }

// the stacks are not `Sync` by declaration (they mutate through a raw cast); the library's own tests share them across threads the same way
struct Shared<T>(T);
unsafe impl<T> Sync for Shared<T> {}
unsafe impl<T> Send for Shared<T> {}

fn make<C: Container>(spec: Spec, cap: usize) -> Instance {
    let c = Arc::new(Shared(C::mk()));
    for i in 0..spec.prefill { assert!(c.0.put(900 + i as u32)) }
    let mut bodies: Vec<mcx::Body> = Vec::new();
    for (t, script) in spec.scripts.iter().enumerate() {
        let c = c.clone();
        let script = *script;
        bodies.push(Box::new(move || {
            for (k, op) in script.chars().enumerate() {
                let v = (100 * (t + 1) + k) as i64;
                match op {
                    'p' => { mcx::rec("s.call", v, 0); let ok = c.0.put(v as u32); mcx::rec("s.ret", v, ok as i64) }
                    'c' => { mcx::rec("p.call", t as i64, 0); match c.0.take() { Some(x) => mcx::rec("got", x as i64, t as i64), None => mcx::rec("pend", t as i64, 0) } }
                    _ => unreachable!(),
                }
            }
        }));
    }
    let disc = spec.cont.discipline();
    let prefill = spec.prefill;
    Instance { bodies, check: Box::new(move |out| {
        let mut v = Vec::new();
        for (t, p) in out.panics.iter().enumerate() { if let Some(p) = p { v.push(("panic".to_string(), format!("thread {t}: {p}"))) } }
        if out.terminal != mcx::Terminal::Done { v.push(("no-termination".into(), format!("execution ended {:?}", out.terminal))); return v }
        // history: prefill pushes, the run, the sequential drain
        let mut ops: Vec<Op> = Vec::new();
        for i in 0..prefill { ops.push(Op { call: 0, ret: 0, kind: OpKind::Push(900 + i as i64) }) }
        // (prefill ops happen strictly before everything else and in this order)
        for (i, o) in ops.iter_mut().enumerate() { o.call = 0; o.ret = 0; let _ = i; }
        let base = 100u32;
        let mut open: std::collections::HashMap<u8, u32> = std::collections::HashMap::new();
        let log = &out.log;
        for r in log {
            match r.op {
                "s.call" | "p.call" => { open.insert(r.tid, r.stamp + base); }
                "s.ret" => { let call = open.remove(&r.tid).unwrap(); ops.push(Op { call, ret: r.stamp + base, kind: if r.b == 1 { OpKind::Push(r.a) } else { OpKind::PushFull } }) }
                "got" => { let call = open.remove(&r.tid).unwrap(); ops.push(Op { call, ret: r.stamp + base, kind: OpKind::Pop(r.a) }) }
                "pend" => { let call = open.remove(&r.tid).unwrap(); ops.push(Op { call, ret: r.stamp + base, kind: OpKind::PopEmpty }) }
                _ => {}
            }
        }
        // give the prefill distinct, ordered stamps below `base`
        for i in 0..prefill { ops[i].call = 2 * i as u32 + 1; ops[i].ret = 2 * i as u32 + 2; }
        let count_end = c.0.count();
        let mut t = log.iter().map(|r| r.stamp).max().unwrap_or(0) + base + 10;
        let mut drained = 0;
        for _ in 0..(cap + 2) { match c.0.take() { Some(x) => { ops.push(Op { call: t, ret: t + 1, kind: OpKind::Pop(x as i64) }); t += 2; drained += 1 }, None => break } }
        if count_end != drained {
            v.push(("length".into(), format!("len() answered {count_end} at the end, {drained} elements could be taken out")));
        }
        if let Some(kind) = lin::classify(&ops, disc, cap, true) {
            v.push((kind.into(), format!("no sequential bounded {:?} (capacity {cap}, prefilled {prefill}) explains: {}", disc, mcx::fmt_log(log))));
        }
        v
    }) }
}

fn dispatch(spec: Spec) -> Instance {
    macro_rules! go { ($N:literal) => { match spec.cont {
        Cont::AtomicStack => make::<ogre_stacks::non_blocking_atomic_stack::Stack<u32, $N, false, false>>(spec, $N),
        Cont::ParkingLotStack => make::<ogre_stacks::non_blocking_parking_lot_stack::Stack<u32, $N, false, false>>(spec, $N),
        Cont::AtomicQueue => make::<ogre_queues::atomic::NonBlockingQueue<u32, $N, 0>>(spec, $N),
        Cont::FullSyncQueue => make::<ogre_queues::full_sync::NonBlockingQueue<u32, $N, 0>>(spec, $N),
    } } }
    match spec.n { 2 => go!(2), 4 => go!(4), n => panic!("capacity {n}") }
}

pub fn scenarios(tier: Tier) -> Vec<ScenarioDef> {
    let mut defs = Vec::new();
    // (name, prefill, scripts)
    let mut scripts: Vec<(&str, usize, Vec<&'static str>)> = vec![
        ("T2-a", 0, vec!["pp", "cc"]), ("T2-b", 0, vec!["pc", "cp"]), ("T2-c", 1, vec!["pp", "pc"]), ("T2-d", 1, vec!["cc", "pc"]), ("T2-e", 0, vec!["pcp", "cpc"]),
        ("T3-a", 0, vec!["pp", "pp", "cc"]), ("T3-b", 1, vec!["pc", "cc", "pp"]), ("T3-c", 0, vec!["pc", "pc", "pc"]), ("T3-d", 2, vec!["cp", "cc", "pp"]),
    ];
    if tier == Tier::Thorough { scripts.push(("T4-a", 1, vec!["pc", "cp", "pp", "cc"])); scripts.push(("T3-e", 1, vec!["ppc", "cpc", "cpp"])); }
    for cont in [Cont::AtomicStack, Cont::ParkingLotStack, Cont::AtomicQueue, Cont::FullSyncQueue] {
        for n in [2usize, 4] {
            let mut rung_idx = 0;
            for (name, prefill, sc) in &scripts {
                if n == 4 && tier == Tier::Quick && sc.len() > 2 { continue }
                let spec = Spec { cont, n, prefill: *prefill, scripts: sc.clone() };
                let threads = sc.len();
                let bound = match tier { Tier::Quick => if threads <= 2 { 3 } else { 2 }, Tier::Thorough => if threads <= 2 { 5 } else if threads == 3 { 3 } else { 2 } };
                defs.push(ScenarioDef { prop: "C18", family: format!("{}/N{n}", cont.name()), rung: name.to_string(), rung_idx, max_bound: bound,
                    make: Arc::new(move || dispatch(spec.clone())) });
                rung_idx += 1;
            }
        }
    }
    defs
}
