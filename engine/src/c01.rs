//! C01 -- Uni: every accepted event is delivered exactly once, rejected ones never (E1)
//! C02 -- Uni: delivery order and capacity behave as one atomic bounded FIFO queue (E1, same executions + raw rings)

use crate::common::*;
use crate::lin::{self, Discipline, Hold, Op, OpKind};
use crate::mcx::{self, Instance, Outcome, Rec};
use crate::registry::{ScenarioDef, Tier};
use futures::Stream;
use reactive_mutiny::prelude::advanced::*;
use std::pin::Pin;
use std::sync::{Arc, Mutex};
use std::task::{Context, Poll};

#[derive(Debug, Clone)]
pub struct Spec {
    pub prop: &'static str,
    pub kind: UniKind,
    /// entry point of producer i = eps[i % eps.len()]
    pub eps: Vec<Ep>,
    pub b: usize,
    pub m: usize,
    pub streams: usize,
    pub producers: usize,
    pub sends: usize,
    pub polls: usize,
    /// zero-copy: consumers keep the handles they receive until they finished polling
    pub hold: bool,
    /// C02: an extra thread that asks `pending_items_count()` this many times while the others run ("never more than BUFFER_SIZE events are pending")
    pub len_queries: usize,
}

fn make<C>(spec: Spec) -> Instance
where C: FullDuplexUniChannel<ItemType = u32> + Send + Sync + 'static,
      C::DerivedItemType: Val + Send + 'static {
    let chan: Arc<C> = C::new("c01");
    let mut bodies: Vec<mcx::Body> = Vec::new();
    for p in 0..spec.producers {
        let chan = chan.clone();
        let (ep, sends) = (spec.eps[p % spec.eps.len()], spec.sends);
        bodies.push(Box::new(move || {
            let c = static_ref(&chan);
            for k in 0..sends {
                uni_send(c, ep, (100 * (p + 1) + k) as u32);
            }
        }));
    }
    let mut slots = Vec::new();
    for s in 0..spec.streams {
        let (stream, _id) = chan.create_stream();
        let slot = Arc::new(Mutex::new(Some(stream)));
        slots.push(slot.clone());
        let (polls, hold) = (spec.polls, spec.hold);
        bodies.push(Box::new(move || {
            let mut stream = slot.lock().unwrap().take().unwrap();
            let waker = noop_waker();
            let mut held = Vec::new();
            for _ in 0..polls {
                match poll_logged(&mut stream, &waker, s as i64) {
                    Poll::Ready(Some(item)) => if hold { held.push(item) } else { drop(item); mcx::rec("rel", s as i64, 0) },
                    Poll::Ready(None) => break,
                    Poll::Pending => {},
                }
            }
            for item in held { let v = item.val(); drop(item); mcx::rec("rel", s as i64, v as i64) }
            *slot.lock().unwrap() = Some(stream);
        }));
    }
    if spec.len_queries > 0 {
        let chan = chan.clone();
        let n = spec.len_queries;
        bodies.push(Box::new(move || {
            for _ in 0..n { mcx::rec("l.call", 0, 0); let len = chan.pending_items_count(); mcx::rec("l.ret", len as i64, 0) }
        }));
    }
    let sp = spec.clone();
    Instance { bodies, check: Box::new(move |out| {
        // sequential drain of every stream after the run (explorer thread, hooks pass through)
        let mut drained: Vec<(i64, i64)> = Vec::new();
        let pending_reported = chan.pending_items_count() as i64;
        let waker = noop_waker();
        let mut cx = Context::from_waker(&waker);
        for (s, slot) in slots.iter().enumerate() {
            if let Some(mut stream) = slot.lock().unwrap().take() {
                for _ in 0..(sp.b + 2) {
                    match Pin::new(&mut stream).poll_next(&mut cx) {
                        Poll::Ready(Some(item)) => drained.push((item.val() as i64, s as i64)),
                        _ => break,
                    }
                }
                drop(stream);
            }
        }
        let mut v = judge_exactly_once(out, &drained, pending_reported, sp.b);
        if sp.prop == "C02" { v.extend(judge_fifo(out, &drained, sp.b, sp.kind)) }
        for r in out.log.iter().filter(|r| r.op == "l.ret") {
            if r.a < 0 || r.a > sp.b as i64 { v.push(("length-out-of-range".to_string(), format!("pending_items_count() answered {} on a channel of {} slots: {}", r.a, sp.b, mcx::fmt_log(&out.log)))) }
        }
        v
    }) }
}

/// C01 oracle: multiset delivered (during the run + drained afterwards) == multiset accepted; nothing else delivered;
/// the rejection contract; pending count at the end == accepted - delivered-during-run and <= BUFFER.
pub fn judge_exactly_once(out: &Outcome, drained: &[(i64, i64)], pending_reported: i64, b: usize) -> Vec<(String, String)> {
    let mut v = Vec::new();
    for (t, p) in out.panics.iter().enumerate() {
        if let Some(p) = p { v.push(("panic".to_string(), format!("thread {t}: {p}"))) }
    }
    if out.terminal != mcx::Terminal::Done {
        v.push(("no-termination".to_string(), format!("execution ended {:?}", out.terminal)));
        return v;
    }
    for r in out.log.iter().filter(|r| r.op == "s.bad") {
        v.push(("bad-reject".to_string(), format!("send of {} contradicts the rejection contract (code {})", r.a, r.b)));
    }
    let mut accepted: Vec<i64> = out.log.iter().filter(|r| r.op == "s.ret" && r.b == 1).map(|r| r.a).collect();
    let rejected: Vec<i64> = out.log.iter().filter(|r| r.op == "s.ret" && r.b == 0).map(|r| r.a).collect();
    let got_run: Vec<i64> = out.log.iter().filter(|r| r.op == "got").map(|r| r.a).collect();
    let mut delivered: Vec<i64> = got_run.clone();
    delivered.extend(drained.iter().map(|d| d.0));
    let mut d_sorted = delivered.clone();
    d_sorted.sort();
    accepted.sort();
    if d_sorted != accepted {
        let dup: Vec<i64> = d_sorted.windows(2).filter(|w| w[0] == w[1]).map(|w| w[0]).collect();
        let missing: Vec<i64> = accepted.iter().copied().filter(|a| !delivered.contains(a)).collect();
        let alien: Vec<i64> = delivered.iter().copied().filter(|d| !accepted.contains(d)).collect();
        let kind = if !dup.is_empty() { "duplicate-delivery" } else if !alien.is_empty() { if alien.iter().any(|a| rejected.contains(a)) { "rejected-delivered" } else { "alien-delivery" } } else { "lost-event" };
        v.push((kind.to_string(), format!("accepted {:?} but delivered {:?} (duplicates {:?}, missing {:?}, never-accepted {:?})", accepted, delivered, dup, missing, alien)));
    }
    let expected_pending = accepted.len() as i64 - got_run.len() as i64;
    if pending_reported != expected_pending && d_sorted == accepted {
        v.push(("pending-count".to_string(), format!("pending_items_count() = {pending_reported} at the end, accepted - delivered = {expected_pending}")));
    }
    if pending_reported > b as i64 {
        v.push(("over-capacity".to_string(), format!("pending_items_count() = {pending_reported} > BUFFER_SIZE = {b}")));
    }
    v
}

fn ops_of(log: &[Rec], drained: &[(i64, i64)]) -> (Vec<Op>, Vec<(u32, u32, i64)>) {
    // sends
    let mut ops = Vec::new();
    let mut rejected = Vec::new();
    for r in log.iter().filter(|r| r.op == "s.ret") {
        let call = log.iter().find(|c| c.op == "s.call" && c.a == r.a && c.tid == r.tid && c.stamp < r.stamp).map(|c| c.stamp).unwrap_or(0);
        if r.b == 1 { ops.push(Op { call, ret: r.stamp, kind: OpKind::Push(r.a) }) } else { rejected.push((call, r.stamp, r.a)) }
    }
    // polls
    let mut open: std::collections::HashMap<u8, u32> = std::collections::HashMap::new();
    for r in log {
        match r.op {
            "p.call" => { open.insert(r.tid, r.stamp); }
            "got" => { let call = open.remove(&r.tid).unwrap_or(0); ops.push(Op { call, ret: r.stamp, kind: OpKind::Pop(r.a) }) }
            "pend" | "end" => { let call = open.remove(&r.tid).unwrap_or(0); ops.push(Op { call, ret: r.stamp, kind: OpKind::PopEmpty }) }
            _ => {}
        }
    }
    // the sequential drain after the run
    let mut t = log.iter().map(|r| r.stamp).max().unwrap_or(0) + 10;
    for (val, _s) in drained {
        ops.push(Op { call: t, ret: t + 1, kind: OpKind::Pop(*val) });
        t += 2;
    }
    (ops, rejected)
}

/// C02 oracle: linearizable as a bounded FIFO; every rejection justified; per-producer order per stream
pub fn judge_fifo(out: &Outcome, drained: &[(i64, i64)], b: usize, kind: UniKind) -> Vec<(String, String)> {
    let mut v = Vec::new();
    if out.terminal != mcx::Terminal::Done { return v }
    let (ops, rejected) = ops_of(&out.log, drained);
    // the drain order across streams is an artefact of the harness only when more than one stream has leftovers; then
    // each stream is drained completely before the next, which is a legal sequential history as well
    if ops.len() <= 24 {
        if let Some(kind) = lin::classify(&ops, Discipline::Fifo, b, false) {
            v.push((kind.to_string(), format!("no sequential bounded-FIFO(capacity {b}) order explains: {}", mcx::fmt_log(&out.log))));
        }
    }
    // justified rejections
    let zero_copy = matches!(kind, UniKind::ZA | UniKind::ZF);
    for (call, ret, val) in &rejected {
        let mut holds: Vec<Hold> = Vec::new();
        for r in out.log.iter().filter(|r| r.op == "s.call" && r.a != *val) {
            // another send: holds a slot from its call; given back when it returns rejected, or when its event was received
            // (movable) / its handle released (zero-copy); never within the run otherwise
            let sret = out.log.iter().find(|x| x.op == "s.ret" && x.a == r.a);
            let until = match sret {
                Some(x) if x.b == 0 => x.stamp,
                _ => {
                    let got = out.log.iter().find(|x| x.op == "got" && x.a == r.a);
                    match got {
                        None => u32::MAX,
                        Some(g) => if zero_copy {
                            // the release logged by the same consumer after the delivery (immediately, or at the end when holding)
                            out.log.iter().find(|x| x.op == "rel" && x.tid == g.tid && x.stamp > g.stamp && (x.b == 0 || x.b == r.a)).map(|x| x.stamp).unwrap_or(u32::MAX)
                        } else { g.stamp },
                    }
                }
            };
            holds.push(Hold { from: r.stamp, until });
        }
        if !lin::full_justified(*call, *ret, &holds, b) {
            v.push(("unjustified-full".to_string(), format!("send of {val} over [{call},{ret}] was rejected although at no instant of the call {b} slots can have been taken: {}", mcx::fmt_log(&out.log))));
        }
    }
    v
}

// ------------------------------------------------------------------------------------------------ raw rings (C02)

#[derive(Debug, Clone, Copy, PartialEq, Eq)]
pub enum Ring { AtomicMove, FullSyncMove, AtomicZeroCopy, FullSyncZeroCopy }
impl Ring { pub fn name(self) -> &'static str { match self { Ring::AtomicMove => "AtomicMove", Ring::FullSyncMove => "FullSyncMove", Ring::AtomicZeroCopy => "AtomicZeroCopy", Ring::FullSyncZeroCopy => "FullSyncZeroCopy" } } }

/// uniform view of the four raw containers
pub trait RawRing: Send + Sync + 'static {
    fn mk() -> Self;
    fn push(&self, v: u32, with_setter: bool) -> bool;
    /// returns the value and releases its slot
    fn pop(&self) -> Option<u32>;
    fn len(&self) -> usize;
}
use reactive_mutiny::ogre_std::ogre_queues::{
    atomic::{atomic_move::AtomicMove, atomic_zero_copy::AtomicZeroCopy},
    full_sync::{full_sync_move::FullSyncMove, full_sync_zero_copy::FullSyncZeroCopy},
    meta_container::{MetaContainer, MoveContainer}, meta_publisher::{MetaPublisher, MovePublisher}, meta_subscriber::{MetaSubscriber, MoveSubscriber},
};
macro_rules! raw_move { ($T:ident) => {
    impl<const N: usize> RawRing for $T<u32, N> {
        fn mk() -> Self { <Self as MoveContainer<u32>>::new() }
        fn push(&self, v: u32, with_setter: bool) -> bool {
            if with_setter { MovePublisher::publish(self, |slot: &mut u32| *slot = v, || false, |_| {}).is_none() } else { self.publish_movable(v).0.is_some() }
        }
        fn pop(&self) -> Option<u32> { self.consume_movable() }
        fn len(&self) -> usize { MovePublisher::available_elements_count(self) }
    }
} }
raw_move!(AtomicMove);
raw_move!(FullSyncMove);
macro_rules! raw_zc { ($T:ident, $A:ident) => {
    impl<const N: usize> RawRing for $T<u32, $A<u32, N>, N> {
        fn mk() -> Self { <Self as MetaContainer<u32>>::new() }
        fn push(&self, v: u32, with_setter: bool) -> bool {
            if with_setter { MetaPublisher::publish(self, |slot: &mut u32| *slot = v).0.is_some() } else { MetaPublisher::publish_movable(self, v).0.is_some() }
        }
        fn pop(&self) -> Option<u32> {
            let this: &'static Self = unsafe { &*(self as *const Self) };
            this.consume_leaking().map(|(r, id)| { let v = *r; this.release_leaked_id(id); v })
        }
        fn len(&self) -> usize { MetaPublisher::available_elements_count(self) }
    }
} }
raw_zc!(AtomicZeroCopy, AllocatorAtomicArray);
raw_zc!(FullSyncZeroCopy, AllocatorFullSyncArray);

#[derive(Debug, Clone)]
pub struct RawSpec { pub ring: Ring, pub n: usize, /// per thread: sequence of ops: 'p' push, 's' push with setter, 'c' pop, 'l' len
                     pub scripts: Vec<&'static str> }

fn make_raw<R: RawRing>(spec: RawSpec, cap: usize) -> Instance {
    let ring = Arc::new(R::mk());
    let mut bodies: Vec<mcx::Body> = Vec::new();
    for (t, script) in spec.scripts.iter().enumerate() {
        let ring = ring.clone();
        let script = *script;
        bodies.push(Box::new(move || {
            for (k, op) in script.chars().enumerate() {
                let v = (100 * (t + 1) + k) as i64;
                match op {
                    'p' | 's' => { mcx::rec("s.call", v, 0); let ok = ring.push(v as u32, op == 's'); mcx::rec("s.ret", v, ok as i64) }
                    'c' => { mcx::rec("p.call", t as i64, 0); match ring.pop() { Some(x) => mcx::rec("got", x as i64, t as i64), None => mcx::rec("pend", t as i64, 0) } }
                    'l' => { mcx::rec("l.call", 0, 0); let n = ring.len(); mcx::rec("l.ret", n as i64, 0) }
                    _ => unreachable!(),
                }
            }
        }));
    }
    Instance { bodies, check: Box::new(move |out| {
        let mut drained = Vec::new();
        let len_end = ring.len() as i64;
        for _ in 0..(cap + 2) { match ring.pop() { Some(x) => drained.push((x as i64, 0)), None => break } }
        let mut v = judge_exactly_once(out, &drained, len_end, cap);
        if out.terminal != mcx::Terminal::Done { return v }
        let (mut ops, rejected) = ops_of(&out.log, &drained);
        // strict 'full' for the raw rings: a rejected push is part of the history
        for (call, ret, _val) in &rejected { ops.push(Op { call: *call, ret: *ret, kind: OpKind::PushFull }) }
        // length queries: the answer must lie between the permissive bounds (lengths are sampled from two counters)
        if ops.len() <= 24 {
            if let Some(kind) = lin::classify(&ops, Discipline::Fifo, cap, false) {
                v.push((kind.to_string(), format!("no sequential bounded-FIFO(capacity {cap}) order explains: {}", mcx::fmt_log(&out.log))));
            }
        }
        for (call, ret, val) in &rejected {
            let mut holds = Vec::new();
            for r in out.log.iter().filter(|r| r.op == "s.call" && r.a != *val) {
                let sret = out.log.iter().find(|x| x.op == "s.ret" && x.a == r.a);
                let until = match sret { Some(x) if x.b == 0 => x.stamp, _ => out.log.iter().find(|x| x.op == "got" && x.a == r.a).map(|g| g.stamp).unwrap_or(u32::MAX) };
                holds.push(Hold { from: r.stamp, until });
            }
            if !lin::full_justified(*call, *ret, &holds, cap) {
                v.push(("unjustified-full".to_string(), format!("push of {val} over [{call},{ret}] rejected although {cap} slots cannot have been taken: {}", mcx::fmt_log(&out.log))));
            }
        }
        for r in out.log.iter().filter(|r| r.op == "l.ret") {
            if r.a < 0 || r.a > cap as i64 {
                v.push(("length-out-of-range".to_string(), format!("available_elements_count() answered {} on a ring of {cap}", r.a)));
            }
        }
        v
    }) }
}

fn make_raw_dispatch(spec: RawSpec) -> Instance {
    macro_rules! go { ($N:literal) => { match spec.ring {
        Ring::AtomicMove => make_raw::<AtomicMove<u32, $N>>(spec, $N),
        Ring::FullSyncMove => make_raw::<FullSyncMove<u32, $N>>(spec, $N),
        Ring::AtomicZeroCopy => make_raw::<AtomicZeroCopy<u32, AllocatorAtomicArray<u32, $N>, $N>>(spec, $N),
        Ring::FullSyncZeroCopy => make_raw::<FullSyncZeroCopy<u32, AllocatorFullSyncArray<u32, $N>, $N>>(spec, $N),
    } } }
    match spec.n { 2 => go!(2), 4 => go!(4), n => panic!("ring size {n}") }
}

// ------------------------------------------------------------------------------------------------ registry

pub fn scenarios(prop: &'static str, tier: Tier) -> Vec<ScenarioDef> {
    let mut defs = Vec::new();
    // (producers, sends each, streams, polls each) -- smallest first
    let mut ladder: Vec<(usize, usize, usize, usize)> = vec![(1, 2, 1, 2), (2, 1, 1, 2), (2, 2, 2, 2)];
    if tier == Tier::Thorough { ladder.push((3, 1, 2, 2)); ladder.push((2, 3, 1, 3)); }
    for kind in UniKind::ALL {
        let mut ep_sets: Vec<(String, Vec<Ep>)> = vec![("send".into(), vec![Ep::Send]), ("send_with".into(), vec![Ep::SendWith]), ("send_with_async".into(), vec![Ep::SendWithAsync])];
        if kind.has_reserve() { ep_sets.push(("reserve".into(), vec![Ep::Reserve])); ep_sets.push(("mixed".into(), vec![Ep::Send, Ep::Reserve])); }
        else { ep_sets.push(("mixed".into(), vec![Ep::Send, Ep::SendWith])); }
        for (ep_name, eps) in ep_sets {
            for b in [2usize, 4] {
                for hold in [false, true] {
                    if hold && !(prop == "C02" && matches!(kind, UniKind::ZA | UniKind::ZF)) { continue }
                    let mut rung_idx = 0;
                    for &(p, sends, streams, polls) in &ladder {
                        let m = if streams == 1 { 1 } else { 2 };
                        if b == 4 && tier == Tier::Quick && p * sends > 2 { continue }
                        // MC's setter-based sends wait (documented) once the buffer is full and nobody consumes: keep within capacity
                        if kind == UniKind::MC && ep_name != "send" && p * sends > b { continue }
                        let family = format!("uni-{}/{}/B{b}{}", kind.name(), ep_name, if hold { "-hold" } else { "" });
                        let rung = format!("P{p}-E{sends}-S{streams}-N{polls}");
                        let spec = Spec { prop, kind, eps: eps.clone(), b, m, streams, producers: p, sends, polls, hold, len_queries: 0 };
                        let threads = p + streams;
                        let bound = match tier { Tier::Quick => if threads <= 2 { 3 } else { 2 }, Tier::Thorough => if threads <= 2 { 4 } else if threads == 3 { 3 } else { 2 } };
                        defs.push(ScenarioDef { prop, family, rung, rung_idx, max_bound: bound,
                            make: Arc::new(move || { let sp = spec.clone(); crate::dispatch_uni!(sp.kind, sp.b, sp.m, make(sp)) }) });
                        rung_idx += 1;
                    }
                }
            }
        }
    }
    if prop == "C02" {
        // length queries racing one producer and one consumer (the count is assembled from two counters)
        for kind in UniKind::ALL {
            for b in [2usize, 4] {
                if b == 4 && tier == Tier::Quick { continue }
                let mut rung_idx = 0;
                let rungs: &[(usize, usize, usize)] = if tier == Tier::Quick { &[(1, 2, 2), (2, 3, 2)] } else { &[(1, 2, 2), (2, 3, 2), (3, 4, 3)] };
                for &(sends, polls, lens) in rungs {
                    let spec = Spec { prop, kind, eps: vec![Ep::Send], b, m: 1, streams: 1, producers: 1, sends, polls, hold: false, len_queries: lens };
                    let bound = match tier { Tier::Quick => 2, Tier::Thorough => 3 };
                    defs.push(ScenarioDef { prop, family: format!("uni-{}/len/B{b}", kind.name()), rung: format!("E{sends}-N{polls}-L{lens}"), rung_idx, max_bound: bound,
                        make: Arc::new(move || { let sp = spec.clone(); crate::dispatch_uni!(sp.kind, sp.b, sp.m, make(sp)) }) });
                    rung_idx += 1;
                }
            }
        }
        let scripts: Vec<(&str, Vec<&'static str>)> = vec![
            ("T2-a", vec!["pp", "cc"]), ("T2-b", vec!["pcp", "cpc"]), ("T2-c", vec!["ppp", "lcl"]), ("T2-d", vec!["sc", "sc"]), ("T2-e", vec!["ll", "pcpc"]),
            ("T3-a", vec!["pp", "pp", "cc"]), ("T3-b", vec!["pp", "cc", "cc"]), ("T3-c", vec!["pc", "pc", "pc"]), ("T3-d", vec!["ps", "cl", "cp"]), ("T3-e", vec!["ll", "pp", "cc"]),
        ];
        for ring in [Ring::AtomicMove, Ring::FullSyncMove, Ring::AtomicZeroCopy, Ring::FullSyncZeroCopy] {
            for n in [2usize, 4] {
                let mut rung_idx = 0;
                for (name, sc) in &scripts {
                    if n == 4 && tier == Tier::Quick { continue }
                    let spec = RawSpec { ring, n, scripts: sc.clone() };
                    let threads = sc.len();
                    let bound = match tier { Tier::Quick => if threads <= 2 { 3 } else { 2 }, Tier::Thorough => if threads <= 2 { 5 } else { 3 } };
                    defs.push(ScenarioDef { prop, family: format!("raw-{}/N{n}", ring.name()), rung: name.to_string(), rung_idx, max_bound: bound,
                        make: Arc::new(move || make_raw_dispatch(spec.clone())) });
                    rung_idx += 1;
                }
            }
        }
    }
    defs
}
