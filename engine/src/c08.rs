//! C08 -- reserved slots: sent ones deliver what was written, cancelled ones vanish, none leak (E2 histories + E1 interleavings)

use crate::chanseq::{self, Alphabet, Family, Mu, U};
use crate::common::*;
use crate::mcx::{self, Instance};
use crate::registry::{ScenarioDef, Tier};
use crate::seqx::Config;
use futures::Stream;
use reactive_mutiny::prelude::advanced::*;
use std::collections::VecDeque;
use std::pin::Pin;
use std::sync::{Arc, Mutex};
use std::task::{Context, Poll};

pub fn configs(tier: Tier) -> Vec<Config> {
    let mut v = Vec::new();
    for b in [2usize, 4] {
        // origins next to the 32-bit wrap: canonical states merge on counters relative to `head` (plus `head % BUFFER`), so one origin
        // lets the publishing side cross the boundary (`wrap`) and one the consuming side as well (`wrap1`)
        for (oname, origin) in [("fresh", 0u32), ("wrap", 0u32.wrapping_sub(b as u32 + 1)), ("wrap1", u32::MAX)] {
            for kind in [UniKind::MA, UniKind::ZA, UniKind::ZF] {
                let al = Alphabet { rewrite: tier == Tier::Thorough && b == 2, ..Alphabet::RESERVE };
                let depth = match (tier, b) { (Tier::Quick, 2) => 64, (Tier::Quick, _) => 9, (Tier::Thorough, 2) => 64, (Tier::Thorough, _) => 14 };
                v.push(Config { name: format!("uni-{}/B{b}/{oname}", kind.name()), max_depth: depth, build: Box::new(move || chanseq::uni_sys(kind, b, al, origin)) });
            }
            for kind in [MultiKind::OA, MultiKind::OF] {
                let al = Alphabet { listener_ops: true, rewrite: false, ..Alphabet::RESERVE };
                let depth = match (tier, b) { (Tier::Quick, 2) => 64, (Tier::Quick, _) => 8, (Tier::Thorough, 2) => 64, (Tier::Thorough, _) => 12 };
                v.push(Config { name: format!("multi-{}/B{b}/{oname}", kind.name()), max_depth: depth, build: Box::new(move || chanseq::ogre_sys(kind, b, al, origin)) });
            }
        }
    }
    v
}

// ------------------------------------------------------------------------------------------------ E1: reservations racing a consumer

/// per producer: 'r' reserve a slot and write a unique value into it; 's' send the oldest reservation this producer holds (retrying,
/// as documented, until it answers true); 'c' cancel the newest one (if that answers false the slot is sent instead); 'p' plain send
/// (only issued while this producer holds no reservation). Whatever is still reserved at the end of the script is sent, oldest first.
#[derive(Debug, Clone)]
pub struct Spec { pub scripts: Vec<&'static str>, pub polls: usize, pub b: usize }

fn make<F: Family>(spec: Spec) -> Instance where F::C: Send + Sync, F::D: Send, F::S: Send + 'static {
    let chan = F::mk();
    let stream = F::open(&chan);
    let mut bodies: Vec<mcx::Body> = Vec::new();
    for (p, script) in spec.scripts.iter().enumerate() {
        let chan = chan.clone();
        let script = *script;
        bodies.push(Box::new(move || {
            let c: &'static F::C = static_ref(&chan);
            let mut own: VecDeque<(*mut u32, u32)> = VecDeque::new();
            let send_oldest = |own: &mut VecDeque<(*mut u32, u32)>| {
                let Some((slot, v)) = own.pop_front() else { return };
                mcx::rec("rs.call", v as i64, 0);
                while !c.try_send_reserved(unsafe { &mut *slot }) { mcx::rec("rs.no", v as i64, 0); mcx::yield_now() }
                mcx::rec("rs.ok", v as i64, 0);
            };
            for (k, op) in script.chars().enumerate() {
                let v = (100 * (p + 1) + k) as u32;
                match op {
                    'r' => match c.reserve_slot() {
                        Some(slot) => { unsafe { std::ptr::write(slot, v) }; mcx::rec("r.ok", v as i64, 0); own.push_back((slot as *mut u32, v)) }
                        None => mcx::rec("r.none", v as i64, 0),
                    },
                    's' => send_oldest(&mut own),
                    'c' => if let Some((slot, v)) = own.pop_back() {
                        if c.try_cancel_slot_reserve(unsafe { &mut *slot }) { mcx::rec("rc.ok", v as i64, 0) } else { mcx::rec("rc.no", v as i64, 0); own.push_back((slot, v)) }
                    },
                    'p' => if own.is_empty() { send_ep::<F::C, F::D>(c, Ep::Send, v); },
                    _ => unreachable!(),
                }
            }
            while !own.is_empty() { send_oldest(&mut own) }
        }));
    }
    let slot = Arc::new(Mutex::new(Some(stream)));
    {
        let slot = slot.clone();
        let polls = spec.polls;
        bodies.push(Box::new(move || {
            let mut stream = slot.lock().unwrap().take().unwrap();
            polling_consumer(&mut stream, 0, polls);
            *slot.lock().unwrap() = Some(stream);
        }));
    }
    let b = spec.b;
    Instance { bodies, check: Box::new(move |out| {
        let mut v = Vec::new();
        for (t, p) in out.panics.iter().enumerate() { if let Some(p) = p { v.push(("panic".to_string(), format!("thread {t}: {p}"))) } }
        let log = &out.log;
        let ctx = || mcx::fmt_log(log);
        if out.terminal != mcx::Terminal::Done {
            // every producer sends its reservations oldest first and the consumer never waits: nobody has anything to wait for
            let stuck: Vec<i64> = log.iter().filter(|r| r.op == "rs.call").map(|r| r.a).filter(|a| !log.iter().any(|r| r.op == "rs.ok" && r.a == *a)).collect();
            v.push(("reserved-send-never-succeeds".into(), format!("execution ended {:?}: try_send_reserved keeps answering false for the slot(s) holding {:?} although nothing older is outstanding: {}", out.terminal, stuck, ctx())));
            return v;
        }
        // sequential drain
        let mut delivered: Vec<i64> = log.iter().filter(|r| r.op == "got").map(|r| r.a).collect();
        let waker = noop_waker();
        let mut cx = Context::from_waker(&waker);
        let mut stream = slot.lock().unwrap().take().unwrap();
        for _ in 0..b + 2 { match Pin::new(&mut stream).poll_next(&mut cx) { Poll::Ready(Some(item)) => delivered.push(item.val() as i64), _ => break } }
        let mut sent: Vec<i64> = log.iter().filter(|r| r.op == "rs.ok" || (r.op == "s.ret" && r.b == 1)).map(|r| r.a).collect();
        let cancelled: Vec<i64> = log.iter().filter(|r| r.op == "rc.ok").map(|r| r.a).collect();
        for c in &cancelled { if delivered.contains(c) { v.push(("cancelled-delivered".into(), format!("the slot holding {c} was cancelled (answer true) and delivered nevertheless: {}", ctx()))) } }
        let mut d = delivered.clone(); d.sort(); sent.sort();
        if d != sent && v.is_empty() {
            let dup: Vec<i64> = d.windows(2).filter(|w| w[0] == w[1]).map(|w| w[0]).collect();
            let missing: Vec<i64> = sent.iter().copied().filter(|a| !d.contains(a)).collect();
            let alien: Vec<i64> = d.iter().copied().filter(|x| !sent.contains(x)).collect();
            let kind = if !dup.is_empty() { "duplicate-delivery" } else if !alien.is_empty() { "unsent-slot-delivered" } else { "sent-slot-lost" };
            v.push((kind.into(), format!("sent (answer true) {:?}, delivered {:?} (twice {:?}, never {:?}, not sent {:?}): {}", sent, delivered, dup, missing, alien, ctx())));
        }
        // the consumer sees reservations of one producer in the order they were sent
        for p in 1..=3i64 {
            let order: Vec<i64> = log.iter().filter(|r| (r.op == "rs.ok" || (r.op == "s.ret" && r.b == 1)) && r.a / 100 == p).map(|r| r.a).collect();
            let seen: Vec<i64> = delivered.iter().copied().filter(|x| x / 100 == p).collect();
            if v.is_empty() && order != seen { v.push(("order".into(), format!("producer {p} sent {:?} but the stream yielded {:?}: {}", order, seen, ctx()))) }
        }
        // none leak: everything was sent or cancelled and consumed -- exactly BUFFER_SIZE events fit again
        if v.is_empty() {
            let mut n = 0;
            for k in 0..b + 1 { match chan.send(900 + k as u32) { keen_retry::RetryResult::Ok { .. } => n += 1, _ => break } }
            if n != b { v.push(("capacity-not-restored".into(), format!("after every reserved slot was sent or cancelled and every event consumed, {n} sends were accepted (BUFFER_SIZE = {b}): {}", ctx()))) }
        }
        drop(stream);
        v
    }) }
}

pub fn scenarios(tier: Tier) -> Vec<ScenarioDef> {
    let mut defs = Vec::new();
    // (name, scripts, consumer polls, usable on the movable atomic ring -- where only the globally newest reservation may be cancelled)
    let mut ladder: Vec<(&str, Vec<&'static str>, usize, bool)> = vec![
        ("T2-a", vec!["rs"], 2, true), ("T2-b", vec!["rrss"], 3, true), ("T2-c", vec!["rrcs"], 2, true), ("T2-d", vec!["rsrc"], 2, true), ("T2-e", vec!["prs"], 3, true),
        ("T3-a", vec!["rs", "rs"], 2, true), ("T3-b", vec!["rc", "rs"], 2, false),
    ];
    if tier == Tier::Thorough { ladder.extend([("T2-f", vec!["rrrsss"], 3, true), ("T2-g", vec!["rrcsrs"], 3, true), ("T3-c", vec!["rrss", "rs"], 3, true), ("T3-d", vec!["rrc", "rs"], 3, false), ("T4-a", vec!["rs", "rs", "rc"], 3, false)]); }
    for b in [2usize, 4] {
        for (idx, (name, scripts, polls, ring_ok)) in ladder.iter().enumerate() {
            if b == 4 && tier == Tier::Quick && scripts.len() > 1 { continue }
            let threads = scripts.len() + 1;
            let bound = match tier { Tier::Quick => if threads <= 2 { 2 } else { 1 }, Tier::Thorough => if threads <= 2 { 4 } else if threads == 3 { 3 } else { 2 } };
            let spec = Spec { scripts: scripts.clone(), polls: *polls, b };
            macro_rules! add { ($kname:expr, $F:ty) => {{ let sp = spec.clone(); defs.push(ScenarioDef { prop: "C08", family: format!("{}/B{b}", $kname), rung: name.to_string(), rung_idx: idx, max_bound: bound, make: Arc::new(move || make::<$F>(sp.clone())) }) }} }
            macro_rules! all { ($B:literal) => {{
                if *ring_ok { add!("uni-MA", U<ChannelUniMoveAtomic<u32, $B, 1>>) }
                add!("uni-ZA", U<ChannelUniZeroCopyAtomic<u32, $B, 1>>);
                add!("uni-ZF", U<ChannelUniZeroCopyFullSync<u32, $B, 1>>);
                add!("multi-OA", Mu<ChannelMultiOgreArcAtomic<u32, $B, 2>>);
                add!("multi-OF", Mu<ChannelMultiOgreArcFullSync<u32, $B, 2>>);
            }} }
            if b == 2 { all!(2) } else { all!(4) }
        }
    }
    defs
}
