//! C13 -- pool allocator: a slot has at most one owner; exhaustion and reuse are exact (E1 schedules + E2 histories)

use crate::lin::{self, Hold};
use crate::mcx::{self, Instance};
use crate::registry::{ScenarioDef, Tier};
use reactive_mutiny::prelude::advanced::*;
use std::sync::Arc;

#[derive(Debug, Clone)]
pub struct Spec {
    pub atomic: bool,
    pub pool: usize,
    /// per thread: slots it already owns when the run starts, and its script: 'a' alloc_ref, 'w' alloc_with, 'd' dealloc_id of the
    /// oldest slot it owns, 'r' dealloc_ref of the oldest slot it owns ('d'/'r' with nothing owned are skipped)
    pub scripts: Vec<(usize, &'static str)>,
}

struct Shared<T>(T);
unsafe impl<T> Sync for Shared<T> {}
unsafe impl<T> Send for Shared<T> {}

fn make<A: BoundedOgreAllocator<u64> + Send + Sync + 'static>(spec: Spec, pool: usize) -> Instance {
    let alloc = Arc::new(Shared(A::new()));
    let mut bodies: Vec<mcx::Body> = Vec::new();
    let mut tag = 1u64;
    for (t, (owned0, script)) in spec.scripts.iter().enumerate() {
        let mut owned: Vec<(u32, u64)> = Vec::new();
        for _ in 0..*owned0 {
            let (slot, id) = alloc.0.alloc_ref().expect("prefill");
            *slot = 7000 + tag; owned.push((id, 7000 + tag)); tag += 1;
        }
        let initial: Vec<u32> = owned.iter().map(|o| o.0).collect();
        let alloc = alloc.clone();
        let script = *script;
        bodies.push(Box::new(move || {
            for id in &initial { mcx::rec("own0", *id as i64, 0) }
            for (k, op) in script.chars().enumerate() {
                let val = (1000 * (t + 1) + k) as u64;
                match op {
                    'a' | 'w' => {
                        mcx::rec("a.call", k as i64, 0);
                        let r = if op == 'a' { alloc.0.alloc_ref().map(|(slot, id)| { *slot = val; id }) }
                                else { alloc.0.alloc_with(|slot| *slot = val).map(|(_slot, id)| id) };
                        match r { Some(id) => { mcx::rec("a.ret", id as i64, k as i64); owned.push((id, val)) }, None => mcx::rec("a.none", k as i64, 0) }
                    }
                    'd' | 'r' => {
                        if owned.is_empty() { continue }
                        let (id, val) = owned.remove(0);
                        // the owner still finds what it wrote
                        let seen = *alloc.0.ref_from_id(id);
                        if seen != val { mcx::rec("corrupt", id as i64, seen as i64) }
                        mcx::rec("d.call", id as i64, 0);
                        if op == 'd' { alloc.0.dealloc_id(id) } else { let r: &u64 = alloc.0.ref_from_id(id); alloc.0.dealloc_ref(r) }
                        mcx::rec("d.ret", id as i64, 0);
                    }
                    _ => unreachable!(),
                }
            }
            for (id, val) in &owned {
                let seen = *alloc.0.ref_from_id(*id);
                if seen != *val { mcx::rec("corrupt", *id as i64, seen as i64) }
                mcx::rec("keep", *id as i64, 0);
            }
        }));
    }
    Instance { bodies, check: Box::new(move |out| {
        let mut v = Vec::new();
        for (t, p) in out.panics.iter().enumerate() { if let Some(p) = p { v.push(("panic".to_string(), format!("thread {t}: {p}"))) } }
        if out.terminal != mcx::Terminal::Done { v.push(("no-termination".into(), format!("execution ended {:?}", out.terminal))); return v }
        let log = &out.log;
        // ownership: from the return of the allocation to the call of the deallocation
        let mut owned: Vec<i64> = log.iter().filter(|r| r.op == "own0").map(|r| r.a).collect();
        for r in log {
            match r.op {
                "a.ret" => {
                    if r.a < 0 || r.a >= pool as i64 { v.push(("id-out-of-range".into(), format!("allocation returned id {} on a pool of {pool}", r.a))) }
                    if owned.contains(&r.a) { v.push(("double-owner".into(), format!("slot {} was handed out while it was still allocated: {}", r.a, mcx::fmt_log(log)))) }
                    owned.push(r.a);
                }
                "d.call" => { owned.retain(|x| *x != r.a) }
                "corrupt" => v.push(("corrupted-slot".into(), format!("slot {} holds {} instead of what its owner wrote: {}", r.a, r.b, mcx::fmt_log(log)))),
                _ => {}
            }
        }
        if owned.len() > pool { v.push(("over-capacity".into(), format!("{} slots outstanding on a pool of {pool}", owned.len()))) }
        // a failed allocation is justified only if at some instant of the call every slot can have been taken
        let mut holds: Vec<Hold> = log.iter().filter(|r| r.op == "own0").map(|r| {
            let until = log.iter().find(|x| x.op == "d.ret" && x.a == r.a).map(|x| x.stamp).unwrap_or(u32::MAX);
            Hold { from: 0, until }
        }).collect();
        let mut open: std::collections::HashMap<u8, u32> = std::collections::HashMap::new();
        let mut fails: Vec<(u32, u32)> = Vec::new();
        for (i, r) in log.iter().enumerate() {
            match r.op {
                "a.call" => { open.insert(r.tid, r.stamp); }
                "a.ret" => {
                    let from = open.remove(&r.tid).unwrap_or(0);
                    let until = log.iter().skip(i + 1).find(|x| x.op == "d.ret" && x.a == r.a && x.tid == r.tid).map(|x| x.stamp).unwrap_or(u32::MAX);
                    holds.push(Hold { from, until });
                }
                "a.none" => { let from = open.remove(&r.tid).unwrap_or(0); fails.push((from, r.stamp)) }
                _ => {}
            }
        }
        for (c, r) in fails {
            if !lin::full_justified(c, r, &holds, pool) {
                v.push(("unjustified-exhaustion".into(), format!("allocation over [{c},{r}] failed although at no instant of the call all {pool} slots can have been outstanding: {}", mcx::fmt_log(log))));
            }
        }
        // afterwards: exactly pool - outstanding further allocations succeed, on distinct slots that nobody owns
        if v.is_empty() {
            let mut fresh: Vec<i64> = Vec::new();
            for _ in 0..pool + 1 { match alloc.0.alloc_ref() { Some((_s, id)) => fresh.push(id as i64), None => break } }
            if fresh.len() != pool - owned.len() {
                v.push(("capacity-not-restored".into(), format!("{} slots are outstanding on a pool of {pool}, yet {} further allocations succeeded (expected {}): {}", owned.len(), fresh.len(), pool - owned.len(), mcx::fmt_log(log))));
            }
            let mut all = fresh.clone(); all.extend(owned.iter()); all.sort();
            if all.windows(2).any(|w| w[0] == w[1]) { v.push(("double-owner".into(), format!("after the run, allocations returned {:?} while {:?} are still owned", fresh, owned))) }
            // id <-> reference is a bijection onto the pool
            let refs: Vec<usize> = (0..pool as u32).map(|id| alloc.0.ref_from_id(id) as *const u64 as usize).collect();
            for id in 0..pool as u32 {
                let r: &u64 = alloc.0.ref_from_id(id);
                if alloc.0.id_from_ref(r) != id { v.push(("not-a-bijection".into(), format!("id_from_ref(ref_from_id({id})) = {}", alloc.0.id_from_ref(r)))) }
            }
            let mut sorted = refs.clone(); sorted.sort(); sorted.dedup();
            if sorted.len() != pool || sorted.windows(2).any(|w| w[1] - w[0] < std::mem::size_of::<u64>()) { v.push(("not-a-bijection".into(), "two ids map to overlapping references".to_string())) }
        }
        v
    }) }
}

fn dispatch(spec: Spec) -> Instance {
    macro_rules! go { ($N:literal) => { if spec.atomic { make::<AllocatorAtomicArray<u64, $N>>(spec, $N) } else { make::<AllocatorFullSyncArray<u64, $N>>(spec, $N) } } }
    match spec.pool { 2 => go!(2), 4 => go!(4), n => panic!("pool {n}") }
}

pub fn scenarios(tier: Tier) -> Vec<ScenarioDef> {
    let mut defs = Vec::new();
    let mut scripts: Vec<(&str, Vec<(usize, &'static str)>)> = vec![
        ("T2-a", vec![(0, "aa"), (0, "aa")]), ("T2-b", vec![(0, "ad"), (0, "wr")]), ("T2-c", vec![(1, "da"), (1, "ra")]), ("T2-d", vec![(2, "dd"), (0, "aa")]),
        ("T2-e", vec![(1, "dad"), (0, "ara")]),
        ("T3-a", vec![(0, "ad"), (0, "wd"), (0, "aa")]), ("T3-b", vec![(1, "d"), (1, "r"), (0, "aaa")]), ("T3-c", vec![(1, "da"), (0, "ad"), (1, "ra")]),
    ];
    if tier == Tier::Thorough { scripts.push(("T3-d", vec![(1, "dad"), (0, "ada"), (1, "rw")])); scripts.push(("T4-a", vec![(1, "da"), (0, "ad"), (1, "r"), (0, "aa")])); }
    for atomic in [true, false] {
        for pool in [2usize, 4] {
            for (idx, (name, sc)) in scripts.iter().enumerate() {
                if pool == 4 && tier == Tier::Quick && sc.len() > 2 { continue }
                let spec = Spec { atomic, pool, scripts: sc.clone() };
                let threads = sc.len();
                let bound = match tier { Tier::Quick => if threads <= 2 { 5 } else { 3 }, Tier::Thorough => if threads <= 2 { 8 } else if threads == 3 { 5 } else { 3 } };
                defs.push(ScenarioDef { prop: "C13", family: format!("{}/P{pool}", if atomic { "AllocatorAtomicArray" } else { "AllocatorFullSyncArray" }), rung: name.to_string(), rung_idx: idx, max_bound: bound,
                    make: Arc::new(move || dispatch(spec.clone())) });
            }
        }
    }
    defs
}

/// E2: every history of alloc_ref / alloc_with / dealloc_id / dealloc_ref on both allocators, from three sequence origins of the free
/// list (fresh, and two next to the 32-bit wrap so that both of its counters cross the boundary), against an ownership model
pub fn configs(tier: Tier) -> Vec<crate::seqx::Config> {
    let mut v = Vec::new();
    for atomic in [true, false] {
        for pool in [2usize, 4] {
            for (oname, origin) in [("fresh", 0u32), ("wrap", 0u32.wrapping_sub(pool as u32 + 1)), ("wrap1", u32::MAX)] {
                let depth = match (tier, pool) { (_, 2) => 64, (Tier::Quick, _) => 9, (Tier::Thorough, _) => 64 };
                v.push(crate::seqx::Config { name: format!("{}/P{pool}/{oname}", if atomic { "AllocatorAtomicArray" } else { "AllocatorFullSyncArray" }), max_depth: depth,
                    build: Box::new(move || crate::chanseq::alloc_sys(atomic, pool, origin)) });
            }
        }
    }
    v
}
