#![allow(dead_code)]
//! `vh` -- verification harness for reactive-mutiny (see /verif/DESIGN.md)
//!
//!   vh run <PROP> <quick|thorough>     master: explores every scenario of the property, writes evidence, prints verdict
//!   vh worker                          worker: reads jobs (JSON lines) on stdin, answers on stdout
//!   vh replay <file>                   re-executes one recorded schedule / history and judges it again
//!   vh list <PROP> <tier>              lists scenario ids

mod mcx;
mod common;
mod registry;
mod master;
mod c04;
mod c01;
mod c18;
mod c03;
mod c07;
mod c09;
mod c10;
mod seqx;
mod seqrun;
mod c05core;
mod c05;
mod c13;
mod c14;
mod c14seq;
mod c17;
mod c19;
mod c20;
mod tracked;
mod lin;
mod chanseq;
mod c15;
mod c08;
mod c16;
mod asyncx;
mod c11;
mod c06;
mod c06e1;
mod c12;

use registry::Tier;

fn main() {
    let args: Vec<String> = std::env::args().collect();
    let code = match args.get(1).map(|s| s.as_str()) {
        Some("run") => {
            let prop = args.get(2).expect("property id");
            let tier = Tier::parse(args.get(3).map(|s| s.as_str()).unwrap_or("quick")).expect("tier");
            master::run(prop, tier)
        }
        Some("worker") => { master::worker(); 0 }
        Some("c15sub") => c15::sub_main(Tier::parse(args.get(2).map(|s| s.as_str()).unwrap_or("quick")).expect("tier")),
        Some("replay") => master::replay(args.get(2).expect("replay file")),
        Some("list") => {
            let prop = args.get(2).expect("property id");
            let tier = Tier::parse(args.get(3).map(|s| s.as_str()).unwrap_or("quick")).expect("tier");
            for d in registry::scenarios(prop, tier) { println!("{} (max bound {})", d.id(), d.max_bound) }
            0
        }
        _ => { eprintln!("usage: vh run|worker|replay|list ..."); 2 }
    };
    std::process::exit(code);
}
