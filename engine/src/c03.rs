//! C03 -- Multi: while the set of listeners is not changing, each listener receives every accepted event exactly once,
//! in each producer's order, and all listeners observe the same allocation (E1)

use crate::common::*;
use crate::mcx::{self, Instance, Outcome};
use crate::registry::{ScenarioDef, Tier};
use futures::Stream;
use reactive_mutiny::prelude::advanced::*;
use std::pin::Pin;
use std::sync::{Arc, Mutex};
use std::task::{Context, Poll};

#[derive(Debug, Clone)]
pub struct Spec {
    pub kind: MultiKind,
    pub eps: Vec<Ep>,
    pub b: usize,
    pub m: usize,
    pub listeners: usize,
    pub producers: usize,
    pub sends: usize,
    pub polls: usize,
    /// create one more listener first and drop it before the run: the remaining ids are not 0..L
    /// 1: as above; 2: create two extra listeners first and drop them newest-first (ids come back out of order)
    pub non_dense: u8,
}

/// (listener, value, address of the payload) of every delivery -- kept outside the observation log because addresses
/// differ between executions
pub type AddrTable = Arc<Mutex<Vec<(i64, i64, usize, u8)>>>;

pub trait MkDerived<D> { fn mk(v: u32) -> Option<D>; }
pub struct Mk;
impl MkDerived<Arc<u32>> for Mk { fn mk(v: u32) -> Option<Arc<u32>> { Some(Arc::new(v)) } }
impl<A: BoundedOgreAllocator<u32> + Send + Sync + 'static> MkDerived<OgreArc<u32, A>> for Mk { fn mk(_v: u32) -> Option<OgreArc<u32, A>> { None } }
impl MkDerived<&'static u32> for Mk { fn mk(_v: u32) -> Option<&'static u32> { None } }

pub fn multi_send_any<C>(chan: &'static C, ep: Ep, v: u32) -> bool
where C: FullDuplexMultiChannel<ItemType = u32>, Mk: MkDerived<C::DerivedItemType> {
    if ep == Ep::SendDerived {
        mcx::rec("s.call", v as i64, ep.code());
        let d = <Mk as MkDerived<C::DerivedItemType>>::mk(v).expect("send_derived is only driven on the Arc channels");
        let ok = chan.send_derived(&d);
        mcx::rec("s.ret", v as i64, ok as i64);
        ok
    } else {
        multi_send(chan, ep, v)
    }
}

fn make<C>(spec: Spec) -> Instance
where C: FullDuplexMultiChannel<ItemType = u32> + Send + Sync + 'static,
      C::DerivedItemType: Val + Send + 'static,
      Mk: MkDerived<C::DerivedItemType> {
    let name = chan_name("c03");
    let chan: Arc<C> = C::new(name.clone());
    if spec.kind == MultiKind::ML { cleanup_mmap(&name) }
    let mut bodies: Vec<mcx::Body> = Vec::new();
    let mut dropped_first: Vec<_> = (0..spec.non_dense).map(|_| chan.create_stream_for_new_events()).collect();
    let mut slots = Vec::new();
    let mut streams = Vec::new();
    for _ in 0..spec.listeners { streams.push(chan.create_stream_for_new_events().0) }
    while let Some(d) = dropped_first.pop() { drop(d) }
    for p in 0..spec.producers {
        let chan = chan.clone();
        let (ep, sends) = (spec.eps[p % spec.eps.len()], spec.sends);
        bodies.push(Box::new(move || {
            let c = static_ref(&chan);
            for k in 0..sends { multi_send_any(c, ep, (100 * (p + 1) + k) as u32); }
        }));
    }
    let addrs: AddrTable = Arc::new(Mutex::new(Vec::new()));
    for (s, stream) in streams.into_iter().enumerate() {
        let slot = Arc::new(Mutex::new(Some(stream)));
        slots.push(slot.clone());
        let polls = spec.polls;
        let addrs = addrs.clone();
        bodies.push(Box::new(move || {
            let mut stream = slot.lock().unwrap().take().unwrap();
            let waker = noop_waker();
            let mut held = Vec::new();
            for _ in 0..polls {
                match poll_logged(&mut stream, &waker, s as i64) {
                    Poll::Ready(Some(item)) => { addrs.lock().unwrap().push((s as i64, item.val() as i64, item.addr(), 0)); held.push(item) },
                    Poll::Ready(None) => break,
                    Poll::Pending => {},
                }
            }
            // handles are kept until the end of the thread so that a premature free / reuse of the allocation would show
            for item in &held { let v = item.val(); mcx::rec("reread", v as i64, s as i64); }
            drop(held);
            *slot.lock().unwrap() = Some(stream);
        }));
    }
    let sp = spec.clone();
    Instance { bodies, check: Box::new(move |out| {
        let mut drained: Vec<(i64, i64)> = Vec::new();
        let waker = noop_waker();
        let mut cx = Context::from_waker(&waker);
        let mut keep = Vec::new();
        for (s, slot) in slots.iter().enumerate() {
            if let Some(mut stream) = slot.lock().unwrap().take() {
                for _ in 0..(sp.b + 2) {
                    match Pin::new(&mut stream).poll_next(&mut cx) {
                        Poll::Ready(Some(item)) => { drained.push((item.val() as i64, s as i64)); addrs.lock().unwrap().push((s as i64, item.val() as i64, item.addr(), 1)); keep.push(item) },
                        _ => break,
                    }
                }
                drop(stream);
            }
        }
        let v = judge_multi(out, &drained, &addrs.lock().unwrap(), sp.listeners, sp.kind != MultiKind::ML || true);
        drop(keep);
        let _ = &chan;
        v
    }) }
}

/// per listener: delivered (run ++ drain) is a permutation of accepted that preserves each producer's order; every
/// re-read of a held payload gives its value; the same event has one address across listeners
pub fn judge_multi(out: &Outcome, drained: &[(i64, i64)], addrs: &[(i64, i64, usize, u8)], listeners: usize, same_alloc: bool) -> Vec<(String, String)> {
    let mut v = Vec::new();
    for (t, p) in out.panics.iter().enumerate() {
        if let Some(p) = p { v.push(("panic".to_string(), format!("thread {t}: {p}"))) }
    }
    if out.terminal != mcx::Terminal::Done {
        v.push(("no-termination".to_string(), format!("execution ended {:?}", out.terminal)));
        return v;
    }
    for r in out.log.iter().filter(|r| r.op == "s.bad") {
        v.push(("bad-reject".to_string(), format!("send of {} contradicts the rejection contract (code {})", r.a, r.b)));
    }
    let accepted: Vec<i64> = out.log.iter().filter(|r| r.op == "s.ret" && r.b == 1).map(|r| r.a).collect();
    let rejected: Vec<i64> = out.log.iter().filter(|r| r.op == "s.ret" && r.b == 0).map(|r| r.a).collect();
    for l in 0..listeners as i64 {
        let mut seq: Vec<i64> = out.log.iter().filter(|r| r.op == "got" && r.b == l).map(|r| r.a).collect();
        seq.extend(drained.iter().filter(|d| d.1 == l).map(|d| d.0));
        let mut sorted = seq.clone(); sorted.sort();
        let mut acc = accepted.clone(); acc.sort();
        if sorted != acc {
            let dup = sorted.windows(2).any(|w| w[0] == w[1]);
            let alien: Vec<i64> = seq.iter().copied().filter(|d| !accepted.contains(d)).collect();
            let kind = if dup { "duplicate-delivery" } else if !alien.is_empty() { if alien.iter().any(|a| rejected.contains(a)) { "rejected-delivered" } else { "alien-delivery" } } else { "lost-event" };
            v.push((kind.to_string(), format!("listener {l}: accepted {:?} but yielded {:?}", accepted, seq)));
            continue;
        }
        // each producer's order (values of producer p are 100*(p+1)+k)
        for p in 1..=9i64 {
            let sub: Vec<i64> = seq.iter().copied().filter(|x| x / 100 == p).collect();
            if sub.windows(2).any(|w| w[0] > w[1]) {
                v.push(("producer-order".to_string(), format!("listener {l} yielded producer {p}'s events out of order: {:?}", seq)));
            }
        }
    }
    for r in out.log.iter().filter(|r| r.op == "reread") { let _ = r; }
    if same_alloc {
        for &val in &accepted {
            let a: Vec<usize> = addrs.iter().filter(|x| x.1 == val).map(|x| x.2).collect();
            if a.windows(2).any(|w| w[0] != w[1]) {
                v.push(("different-allocation".to_string(), format!("event {val} was observed at different addresses by different listeners")));
            }
        }
        // two different events held at the same time never share an address: a listener keeps what it got during the run until
        // its thread ends (phase 0), the drain keeps everything until the verdict (phase 1)
        for (i, x) in addrs.iter().enumerate() {
            for y in addrs.iter().skip(i + 1) {
                let both_held = (x.3 == 0 && y.3 == 0 && x.0 == y.0) || (x.3 == 1 && y.3 == 1);
                if both_held && x.1 != y.1 && x.2 == y.2 && x.2 != 0 {
                    v.push(("shared-storage".to_string(), format!("events {} and {} were handed out at the same address while both were held", x.1, y.1)));
                }
            }
        }
    }
    v
}

pub fn scenarios(tier: Tier) -> Vec<ScenarioDef> {
    let mut defs = Vec::new();
    // (producers, sends each, polls each) -- total events <= 3 < B = 4
    let mut ladder: Vec<(usize, usize, usize)> = vec![(1, 2, 2), (2, 1, 2)];
    if tier == Tier::Thorough { ladder.push((1, 3, 3)); ladder.push((3, 1, 2)); }
    for kind in MultiKind::ALL {
        let mut ep_sets: Vec<(&str, Vec<Ep>)> = vec![("send", vec![Ep::Send]), ("send_with", vec![Ep::SendWith])];
        if kind.has_async() { ep_sets.push(("send_with_async", vec![Ep::SendWithAsync])) }
        if kind.has_reserve() { ep_sets.push(("reserve", vec![Ep::Reserve])); ep_sets.push(("mixed", vec![Ep::Send, Ep::Reserve])) }
        if matches!(kind, MultiKind::AA | MultiKind::AF | MultiKind::AC) { ep_sets.push(("send_derived", vec![Ep::SendDerived])); ep_sets.push(("mixed", vec![Ep::SendDerived, Ep::SendWith])) }
        for (ep_name, eps) in ep_sets {
            for (l, non_dense) in [(1usize, 0u8), (2, 0), (1, 1), (1, 2), (2, 2)] {
                let mut rung_idx = 0;
                for &(p, sends, polls) in &ladder {
                    if tier == Tier::Quick && kind == MultiKind::ML && (ep_name != "send" && ep_name != "send_with" || non_dense > 0) { continue }
                    if non_dense > 0 && tier == Tier::Quick && p * sends > 2 { continue }
                    if non_dense == 2 && tier == Tier::Quick && ep_name != "send" { continue }
                    let family = format!("multi-{}/{}/L{l}{}", kind.name(), ep_name, match non_dense { 0 => "", 1 => "-nondense", _ => "-nondense2" });
                    let rung = format!("P{p}-E{sends}-N{polls}");
                    let spec = Spec { kind, eps: eps.clone(), b: 4, m: if non_dense == 2 { 4 } else { 2 }, listeners: l, producers: p, sends, polls, non_dense };
                    let threads = p + l;
                    let bound = match tier { Tier::Quick => if threads <= 2 { 3 } else { 2 }, Tier::Thorough => if threads <= 2 { 4 } else if threads == 3 { 3 } else { 2 } };
                    defs.push(ScenarioDef { prop: "C03", family, rung, rung_idx, max_bound: bound,
                        make: Arc::new(move || { let sp = spec.clone(); crate::dispatch_multi!(sp.kind, sp.b, sp.m, make(sp)) }) });
                    rung_idx += 1;
                }
            }
        }
    }
    defs
}
