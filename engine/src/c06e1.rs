//! C06 (E1 part) -- gracefully ending all streams of a channel, at channel level, against consumers running on their own threads
//!
//! Thread 0 sends its events and then calls `gracefully_end_all_streams(Duration::ZERO)` (unbounded) on a private paused tokio runtime;
//! the other threads are driven streams (poll; park on Pending; stop at end-of-stream). What matters here and cannot happen on the
//! current-thread runtime of the E3 part: the close racing the gap between a stream's `consume -> nothing` and its look at the end flag.

use crate::chanseq::{Family, Mu, U};
use crate::common::*;
use crate::mcx::{self, Instance};
use crate::registry::{ScenarioDef, Tier};
use reactive_mutiny::prelude::advanced::*;
use std::sync::Arc;
use std::time::Duration;

#[derive(Debug, Clone)]
pub struct Spec { pub events: usize, pub streams: usize, pub ep: Ep,
                  /// a stream with the lowest id was created first and dropped again before the run, without ever having been told to end
                  pub predropped: bool }

fn make<F: Family>(spec: Spec) -> Instance where F::C: Send + Sync, F::D: Send, F::S: Send + 'static {
    let chan = F::mk();
    let gone = if spec.predropped { Some(F::open(&chan)) } else { None };
    let streams: Vec<F::S> = (0..spec.streams).map(|_| F::open(&chan)).collect();
    drop(gone);
    let mut bodies: Vec<mcx::Body> = Vec::new();
    {
        let chan = chan.clone();
        let (events, ep) = (spec.events, spec.ep);
        bodies.push(Box::new(move || {
            let c: &'static F::C = static_ref(&chan);
            for k in 0..events { send_ep::<F::C, F::D>(c, ep, (100 + k) as u32); }
            mcx::rec("close.call", 0, 0);
            let left = crate::c07::on_paused_tokio(c.gracefully_end_all_streams(Duration::ZERO));
            mcx::rec("close.ret", left as i64, 0);
            mcx::rec("after.running", c.running_streams_count() as i64, 0);
            mcx::rec("after.open", c.is_channel_open() as i64, 0);
            mcx::rec("after.pending", c.pending_items_count() as i64, 0);
        }));
    }
    for (s, stream) in streams.into_iter().enumerate() { bodies.push(Box::new(move || driven_consumer(stream, s as i64))) }
    let sp = spec.clone();
    Instance { bodies, check: Box::new(move |out| {
        let _ = &chan;
        let mut v = Vec::new();
        for (t, p) in out.panics.iter().enumerate() { if let Some(p) = p { v.push(("panic".to_string(), format!("thread {t}: {p}"))) } }
        let log = &out.log;
        let ctx = || mcx::fmt_log(log);
        let accepted: Vec<i64> = log.iter().filter(|r| r.op == "s.ret" && r.b == 1).map(|r| r.a).collect();
        let Some(ret) = log.iter().find(|r| r.op == "close.ret") else {
            v.push(("close-never-returns".into(), format!("execution ended {:?}: an unbounded gracefully_end_all_streams() never returned (accepted {:?}): {}", out.terminal, accepted, ctx())));
            return v;
        };
        if out.terminal != mcx::Terminal::Done { v.push(("stream-never-ends".into(), format!("execution ended {:?} after the close returned: {}", out.terminal, ctx()))) }
        // every event accepted before the call has been yielded to each stream entitled to it
        for a in &accepted {
            let entitled: Vec<i64> = if F::MULTI { (0..sp.streams as i64).collect() } else { vec![-1] };
            for cid in entitled {
                let got = log.iter().any(|r| r.op == "got" && r.a == *a && (cid < 0 || r.b == cid) && r.stamp < ret.stamp);
                if !got {
                    let ever = log.iter().any(|r| r.op == "got" && r.a == *a && (cid < 0 || r.b == cid));
                    v.push(((if ever { "close-returned-early" } else { "event-discarded" }).into(), format!("event {a} was accepted before the close was called, but {} when it returned{}: {}",
                        if cid < 0 { "no stream had yielded it".to_string() } else { format!("listener {cid} had not yielded it") }, if ever { "" } else { " (nor ever after)" }, ctx())));
                }
            }
        }
        let mut seen: Vec<(i64, i64)> = log.iter().filter(|r| r.op == "got").map(|r| (r.a, if F::MULTI { r.b } else { 0 })).collect();
        seen.sort();
        if seen.windows(2).any(|w| w[0] == w[1]) { v.push(("duplicate-delivery".into(), ctx())) }
        for s in 0..sp.streams as i64 { if !log.iter().any(|r| r.op == "end" && r.a == s && r.stamp < ret.stamp) { v.push(("close-returned-early".into(), format!("stream {s} had not answered end-of-stream when the close returned: {}", ctx()))) } }
        if ret.a != 0 { v.push(("close-answered-nonzero".into(), format!("an unbounded close reported {} streams still running: {}", ret.a, ctx()))) }
        for r in log.iter().filter(|r| (r.op == "after.running" || r.op == "after.open" || r.op == "after.pending") && r.a != 0) {
            v.push((match r.op { "after.running" => "streams-still-running", "after.open" => "channel-still-open", _ => "events-discarded" }.into(), format!("right after the close returned {} = {}: {}", r.op, r.a, ctx())));
        }
        v
    }) }
}

pub fn scenarios(tier: Tier) -> Vec<ScenarioDef> {
    let mut defs = Vec::new();
    let kinds = ["uni-MA", "uni-MF", "uni-MC", "uni-ZA", "uni-ZF", "multi-AA", "multi-AF", "multi-AC", "multi-OA", "multi-OF"];
    for kname in kinds {
        for ep in [Ep::Send, Ep::SendWith] {
            if ep == Ep::SendWith && tier == Tier::Quick { continue }
            for (idx, (events, streams)) in [(1usize, 1usize), (2, 1), (1, 2), (2, 2)].into_iter().enumerate() {
                if tier == Tier::Quick && events == 2 && streams == 2 { continue }
                let spec = Spec { events, streams, ep, predropped: false };
                let bound = match (tier, streams) { (Tier::Quick, 1) => 2, (Tier::Quick, _) => 2, (Tier::Thorough, 1) => 4, (Tier::Thorough, _) => 3 };
                macro_rules! add { ($F:ty) => {{ let sp = spec.clone(); defs.push(ScenarioDef { prop: "C06", family: format!("{kname}/channel-level/{}", ep.name()), rung: format!("E{events}-S{streams}"), rung_idx: idx, max_bound: bound, make: Arc::new(move || make::<$F>(sp.clone())) }) }} }
                match kname {
                    "uni-MA" => add!(U<ChannelUniMoveAtomic<u32, 4, 2>>), "uni-MF" => add!(U<ChannelUniMoveFullSync<u32, 4, 2>>), "uni-MC" => add!(U<ChannelUniMoveCrossbeam<u32, 4, 2>>),
                    "uni-ZA" => add!(U<ChannelUniZeroCopyAtomic<u32, 4, 2>>), "uni-ZF" => add!(U<ChannelUniZeroCopyFullSync<u32, 4, 2>>),
                    "multi-AA" => add!(Mu<ChannelMultiArcAtomic<u32, 4, 2>>), "multi-AF" => add!(Mu<ChannelMultiArcFullSync<u32, 4, 2>>), "multi-AC" => add!(Mu<ChannelMultiArcCrossbeam<u32, 4, 2>>),
                    "multi-OA" => add!(Mu<ChannelMultiOgreArcAtomic<u32, 4, 2>>), _ => add!(Mu<ChannelMultiOgreArcFullSync<u32, 4, 2>>),
                }
            }
        }
        // the same close with a lower stream id vacated earlier by a stream that went away on its own
        {
            let spec = Spec { events: 1, streams: 1, ep: Ep::Send, predropped: true };
            let bound = match tier { Tier::Quick => 2, Tier::Thorough => 4 };
            macro_rules! add { ($F:ty) => {{ let sp = spec.clone(); defs.push(ScenarioDef { prop: "C06", family: format!("{kname}/channel-level-after-drop/send"), rung: "E1-S1".to_string(), rung_idx: 0, max_bound: bound, make: Arc::new(move || make::<$F>(sp.clone())) }) }} }
            match kname {
                "uni-MA" => add!(U<ChannelUniMoveAtomic<u32, 4, 2>>), "uni-MF" => add!(U<ChannelUniMoveFullSync<u32, 4, 2>>), "uni-MC" => add!(U<ChannelUniMoveCrossbeam<u32, 4, 2>>),
                "uni-ZA" => add!(U<ChannelUniZeroCopyAtomic<u32, 4, 2>>), "uni-ZF" => add!(U<ChannelUniZeroCopyFullSync<u32, 4, 2>>),
                "multi-AA" => add!(Mu<ChannelMultiArcAtomic<u32, 4, 2>>), "multi-AF" => add!(Mu<ChannelMultiArcFullSync<u32, 4, 2>>), "multi-AC" => add!(Mu<ChannelMultiArcCrossbeam<u32, 4, 2>>),
                "multi-OA" => add!(Mu<ChannelMultiOgreArcAtomic<u32, 4, 2>>), _ => add!(Mu<ChannelMultiOgreArcFullSync<u32, 4, 2>>),
            }
        }
    }
    defs
}
