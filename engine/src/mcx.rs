//! E1 `mcx`: controlled scheduler + preemption-bounded, stateless depth-first exploration of thread interleavings
//! of the *real* reactive-mutiny code (built with its `verif` feature, which reports every protocol atomic operation and
//! every plain shared access to the hook installed here).
//!
//! One logical thread = one OS thread; a baton (mutex + one condvar per thread) lets exactly one run.
//! Every reported pre-event is a scheduling point. See DESIGN.md §3.1.

use reactive_mutiny::verif::{self, Event, EventKind};
use std::cell::RefCell;
use std::collections::HashMap;
use std::panic::{self, AssertUnwindSafe};
use std::sync::{Arc, Condvar, Mutex};
use std::task::{Wake, Waker};

pub const STEP_CAP: u64 = 20_000;

/// How alternatives are priced. `true` (default): every departure from the default schedule (the running thread continues
/// while it can; otherwise the lowest enabled thread id) costs one *deviation* -- delay-bounded exploration; a schedule with
/// k deviations has at most k preemptions. `false`: only preemptions cost (CHESS-style preemption bounding).
pub static DEVIATION_COST: std::sync::atomic::AtomicBool = std::sync::atomic::AtomicBool::new(true);
fn free_cost() -> bool { DEVIATION_COST.load(std::sync::atomic::Ordering::Relaxed) }
/// extra spin iterations granted to threads when only blocked spinners remain, before the state is declared a stall
const SPIN_GRACE: u32 = 24;
/// hook events a thread may emit while being unwound at the end of an aborted execution before it is abandoned
const ABORT_BUDGET: u32 = 200_000;

#[derive(Debug, Clone, Copy, PartialEq, Eq, Hash)]
pub enum Status {
    NotStarted,
    Runnable,
    Parked,
    /// waiting, in the harness, for every other thread to be unable to run
    WaitQuiescent,
    /// waiting to acquire the blocking lock at this address
    BlockedLock(usize),
    Finished,
}

#[derive(Debug, Clone, Copy, PartialEq, Eq, Hash)]
pub enum Terminal {
    /// every thread finished
    Done,
    /// nobody can run; at least one thread is parked; nobody is spinning
    Quiescent,
    /// nobody can run; at least one thread is blocked spinning / on a lock
    Stall,
    /// step cap exceeded
    Runaway,
}

/// One entry of the observation log written by harness code
#[derive(Debug, Clone, PartialEq, Eq, Hash)]
pub struct Rec {
    pub tid: u8,
    pub stamp: u32,
    pub op: &'static str,
    pub a: i64,
    pub b: i64,
}

#[derive(Debug, Clone, Copy)]
pub struct Point {
    /// number of alternatives at this point
    pub n: u8,
    pub chosen: u8,
    /// true if choosing an alternative != 0 here costs one unit of the bound
    pub preemptive: bool,
}

#[derive(Debug, Clone)]
pub struct ThreadView {
    pub status: Status,
    pub spinning: bool,
}

/// What `wait_quiescent()` reports about the other threads
#[derive(Debug, Clone)]
pub struct Quiescence {
    pub threads: Vec<ThreadView>,
}
impl Quiescence {
    pub fn any_spinning(&self) -> bool {
        self.threads.iter().any(|t| t.spinning || matches!(t.status, Status::BlockedLock(_)))
    }
}

struct TState {
    status: Status,
    unpark_token: bool,
    yield_pending: bool,
    own_writes: u64,
    last_yield_foreign: Option<u64>,
    /// Some(foreign epoch) = blocked spinning until the foreign epoch differs
    spin_blocked: Option<u64>,
    grace_used: u32,
    /// pre-event whose effect is applied when the thread is resumed
    pending_write: bool,
    panicked: Option<String>,
}

struct State {
    current: usize,
    threads: Vec<TState>,
    epoch: u64,
    locks: HashMap<usize, usize>,
    prefix: Vec<u8>,
    points: Vec<Point>,
    steps: u64,
    stamp: u32,
    log: Vec<Rec>,
    terminal: Option<Terminal>,
    aborting: bool,
    /// during the abort phase: the one thread allowed to unwind
    unwinding: Option<usize>,
    abandoned: Vec<bool>,
    engine_error: Option<String>,
    trace: Option<Vec<String>>,
}

pub struct Exec {
    st: Mutex<State>,
    cvs: Vec<Condvar>,
    main_cv: Condvar,
}

struct Ctx {
    exec: Arc<Exec>,
    tid: usize,
    abort_events: u32,
}

thread_local! {
    static CTX: RefCell<Option<Ctx>> = const { RefCell::new(None) };
}

/// payload used to unwind logical threads at the end of an aborted execution
pub struct AbortToken;

fn hook(ev: &Event) {
    // fast path: threads that do not belong to an execution pass through
    let Some((exec, tid)) = CTX.with(|c| c.borrow().as_ref().map(|c| (c.exec.clone(), c.tid))) else { return };
    exec.on_event(tid, ev);
}

pub fn install() {
    verif::set_hook(Some(hook));
    // silence the unwinding of aborted logical threads; record other panics per thread
    panic::set_hook(Box::new(|info| {
        if info.payload().downcast_ref::<AbortToken>().is_some() {
            return;
        }
        let msg = if let Some(s) = info.payload().downcast_ref::<&str>() { s.to_string() }
                  else if let Some(s) = info.payload().downcast_ref::<String>() { s.clone() }
                  else { "<non-string panic>".to_string() };
        let loc = info.location().map(|l| format!("{}:{}", l.file(), l.line())).unwrap_or_default();
        let in_exec = CTX.with(|c| {
            if let Some(c) = c.borrow().as_ref() {
                if let Ok(mut st) = c.exec.st.try_lock() {
                    let tid = c.tid;
                    st.threads[tid].panicked = Some(format!("{msg} @ {loc}"));
                }
                true
            } else { false }
        });
        if !in_exec || std::env::var_os("VH_SHOW_PANICS").is_some() {
            eprintln!("panic: {msg} @ {loc}");
        }
    }));
}

fn is_write(kind: EventKind) -> bool {
    matches!(kind, EventKind::Store | EventKind::Rmw | EventKind::PlainWrite | EventKind::LockExit)
}

impl Exec {
    fn foreign(st: &State, tid: usize) -> u64 {
        st.epoch - st.threads[tid].own_writes
    }

    fn bump(st: &mut State, tid: usize) {
        st.epoch += 1;
        st.threads[tid].own_writes += 1;
    }

    fn is_spin_blocked(st: &State, tid: usize) -> bool {
        match st.threads[tid].spin_blocked {
            Some(e) => e == Self::foreign(st, tid),
            None => false,
        }
    }

    fn enabled(st: &State, tid: usize) -> bool {
        let t = &st.threads[tid];
        match t.status {
            Status::Runnable | Status::NotStarted => !Self::is_spin_blocked(st, tid),
            Status::BlockedLock(addr) => !st.locks.contains_key(&addr),
            _ => false,
        }
    }

    fn on_event(self: &Arc<Self>, tid: usize, ev: &Event) {
        let mut st = self.st.lock().unwrap();
        if st.aborting {
            drop(st);
            let over = CTX.with(|c| {
                let mut c = c.borrow_mut();
                let c = c.as_mut().unwrap();
                c.abort_events += 1;
                c.abort_events > ABORT_BUDGET
            });
            if over {
                // stuck spinning inside a destructor of an aborted execution: abandon this OS thread
                self.abandon(tid);
            }
            return;
        }
        if let Some(tr) = st.trace.as_mut() {
            tr.push(format!("t{tid} {:?} {}", ev.kind, ev.tag));
        }
        match ev.kind {
            // post-events: not scheduling points
            EventKind::CasOk | EventKind::SwapChanged => {
                Self::bump(&mut st, tid);
            }
            EventKind::CasFailed | EventKind::SwapSame => {
                Self::note_yield(&mut st, tid);
            }
            EventKind::Fence => {}
            EventKind::SpinHint => {
                Self::note_yield(&mut st, tid);
                let _g = self.sched_point(st, tid, false);
            }
            EventKind::LockEnter => {
                // enabled only while the lock is free; acquires it in the same step in which it is resumed
                st.threads[tid].status = Status::BlockedLock(ev.addr);
                let st = self.sched_point(st, tid, false);
                // resumed: the lock is free (we are only enabled when it is)
                let mut st = st;
                if st.aborting { return }
                st.locks.insert(ev.addr, tid);
                st.threads[tid].status = Status::Runnable;
                Self::bump(&mut st, tid);
            }
            EventKind::LockExit => {
                let mut st = self.sched_point(st, tid, true);
                if st.aborting { return }
                st.locks.remove(&ev.addr);
            }
            kind => {
                let _g = self.sched_point(st, tid, is_write(kind));
            }
        }
    }

    fn note_yield(st: &mut State, tid: usize) {
        let f = Self::foreign(st, tid);
        let t = &mut st.threads[tid];
        if t.last_yield_foreign == Some(f) {
            t.spin_blocked = Some(f);
        } else {
            t.last_yield_foreign = Some(f);
            t.grace_used = 0;
        }
        t.yield_pending = true;
    }

    fn abandon(&self, tid: usize) -> ! {
        {
            let mut st = self.st.lock().unwrap();
            st.threads[tid].status = Status::Finished;
            st.abandoned[tid] = true;
            if st.unwinding == Some(tid) { st.unwinding = None }
            st.engine_error.get_or_insert_with(|| format!("thread {tid} abandoned: stuck while unwinding an aborted execution"));
            self.main_cv.notify_all();
        }
        loop { std::thread::park(); }
    }

    /// The heart: called by the running thread `tid` holding the state lock. Picks who runs next, hands over the baton
    /// if needed and returns (still holding the lock) when `tid` runs again.
    fn sched_point<'a>(self: &'a Arc<Self>, mut st: std::sync::MutexGuard<'a, State>, tid: usize, write: bool) -> std::sync::MutexGuard<'a, State> {
        debug_assert_eq!(st.current, tid);
        st.steps += 1;
        st.stamp += 1;
        if st.steps > STEP_CAP {
            st.terminal = Some(Terminal::Runaway);
            return self.begin_abort(st, tid);
        }
        st.threads[tid].pending_write = write;
        let me_yielding = std::mem::take(&mut st.threads[tid].yield_pending);
        let st = self.choose_and_switch(st, tid, me_yielding);
        st
    }

    fn choose_and_switch<'a>(self: &'a Arc<Self>, mut st: std::sync::MutexGuard<'a, State>, tid: usize, me_yielding: bool) -> std::sync::MutexGuard<'a, State> {
        loop {
            let n = st.threads.len();
            let me_enabled = Self::enabled(&st, tid);
            let mut order: Vec<usize> = Vec::with_capacity(n);
            let preemptive;
            // the others in cyclic order after `tid` (fair default: whoever waited longest goes first)
            if me_enabled && !me_yielding {
                order.push(tid);
                for k in 1..n { let t = (tid + k) % n; if Self::enabled(&st, t) { order.push(t) } }
                preemptive = true;
            } else {
                for k in 1..n { let t = (tid + k) % n; if Self::enabled(&st, t) { order.push(t) } }
                if me_enabled { order.push(tid) }
                preemptive = free_cost();
            }
            if order.is_empty() {
                // nobody can run: release threads waiting for quiescence, else grant grace to spinners, else terminal
                if let Some(w) = (0..n).find(|&t| st.threads[t].status == Status::WaitQuiescent) {
                    st.threads[w].status = Status::Runnable;
                    continue;
                }
                if let Some(s) = (0..n).find(|&t| matches!(st.threads[t].status, Status::Runnable | Status::NotStarted)
                                                 && Self::is_spin_blocked(&st, t) && st.threads[t].grace_used < SPIN_GRACE) {
                    // only blocked spinners remain: let the lowest one retry (it may be a bounded retry, not a wait)
                    st.threads[s].grace_used += 1;
                    st.threads[s].spin_blocked = None;
                    st.threads[s].last_yield_foreign = Some(Self::foreign(&st, s));
                    continue;
                }
                let all_done = st.threads.iter().all(|t| t.status == Status::Finished);
                let any_spin = (0..n).any(|t| matches!(st.threads[t].status, Status::Runnable | Status::NotStarted | Status::BlockedLock(_)));
                st.terminal = Some(if all_done { Terminal::Done } else if any_spin { Terminal::Stall } else { Terminal::Quiescent });
                if all_done {
                    self.main_cv.notify_all();
                    return st;
                }
                return self.begin_abort(st, tid);
            }
            // choice
            let idx = if order.len() == 1 { 0 } else {
                let pos = st.points.len();
                let c = if pos < st.prefix.len() { st.prefix[pos] as usize } else { 0 };
                if c >= order.len() {
                    st.engine_error = Some(format!("replay divergence at point {pos}: choice {c} of {}", order.len()));
                    st.terminal = Some(Terminal::Runaway);
                    return self.begin_abort(st, tid);
                }
                c
            };
            if order.len() > 1 {
                st.points.push(Point { n: order.len() as u8, chosen: idx as u8, preemptive });
            }
            let next = order[idx];
            if next == tid {
                return self.resume_effects(st, tid);
            }
            st.current = next;
            self.cvs[next].notify_one();
            // wait for the baton
            while !(st.current == tid && !st.aborting) && !(st.aborting && st.unwinding == Some(tid)) {
                st = self.cvs[tid].wait(st).unwrap();
            }
            if st.aborting {
                // woken for unwinding
                drop(st);
                panic::resume_unwind(Box::new(AbortToken));
            }
            return self.resume_effects(st, tid);
        }
    }

    fn resume_effects<'a>(&'a self, mut st: std::sync::MutexGuard<'a, State>, tid: usize) -> std::sync::MutexGuard<'a, State> {
        if st.threads[tid].status == Status::NotStarted {
            st.threads[tid].status = Status::Runnable;
        }
        if std::mem::take(&mut st.threads[tid].pending_write) {
            Self::bump(&mut st, tid);
        }
        st
    }

    /// A non-Done terminal state was reached by `tid` (the running thread): tell main, then unwind this thread.
    fn begin_abort<'a>(&'a self, mut st: std::sync::MutexGuard<'a, State>, tid: usize) -> std::sync::MutexGuard<'a, State> {
        st.aborting = true;
        st.current = usize::MAX;
        if st.threads[tid].status == Status::Finished {
            self.main_cv.notify_all();
            return st;
        }
        st.unwinding = Some(tid);
        self.main_cv.notify_all();
        drop(st);
        panic::resume_unwind(Box::new(AbortToken));
    }

    // ---------------------------------------------------------------- harness-facing primitives (called through free fns)

    fn park(self: &Arc<Self>, tid: usize) {
        let mut st = self.st.lock().unwrap();
        if st.aborting { return }
        if st.threads[tid].unpark_token {
            st.threads[tid].unpark_token = false;
            // still a scheduling point (the consumer returns to its executor)
            let _g = self.sched_point(st, tid, false);
            return;
        }
        st.threads[tid].status = Status::Parked;
        let _g = self.sched_point(st, tid, false);
    }

    fn unpark(self: &Arc<Self>, caller: Option<usize>, target: usize) {
        let mut st = self.st.lock().unwrap();
        if st.aborting { return }
        if st.threads[target].status == Status::Parked {
            st.threads[target].status = Status::Runnable;
        } else {
            st.threads[target].unpark_token = true;
        }
        if let Some(c) = caller { Self::bump(&mut st, c) } else { st.epoch += 1 }
    }

    fn wait_quiescent(self: &Arc<Self>, tid: usize) -> Quiescence {
        let mut st = self.st.lock().unwrap();
        if st.aborting { drop(st); panic::resume_unwind(Box::new(AbortToken)); }
        st.threads[tid].status = Status::WaitQuiescent;
        let st = self.sched_point(st, tid, false);
        let threads = (0..st.threads.len()).map(|t| ThreadView {
            status: st.threads[t].status,
            spinning: t != tid && matches!(st.threads[t].status, Status::Runnable | Status::NotStarted) && Self::is_spin_blocked(&st, t),
        }).collect();
        Quiescence { threads }
    }

    fn yield_now(self: &Arc<Self>, tid: usize) {
        let mut st = self.st.lock().unwrap();
        if st.aborting { return }
        Self::note_yield(&mut st, tid);
        let _g = self.sched_point(st, tid, false);
    }

    fn step(self: &Arc<Self>, tid: usize, write: bool) {
        let st = self.st.lock().unwrap();
        if st.aborting { return }
        let _g = self.sched_point(st, tid, write);
    }
}

fn with_ctx<R>(f: impl FnOnce(&Arc<Exec>, usize) -> R) -> Option<R> {
    let c = CTX.with(|c| c.borrow().as_ref().map(|c| (c.exec.clone(), c.tid)));
    c.map(|(e, t)| f(&e, t))
}

/// `std::thread::park` semantics under the controlled scheduler
pub fn park() { with_ctx(|e, t| e.park(t)); }
/// wakes logical thread `target` (token semantics)
pub fn unpark(target: usize) {
    let c = CTX.with(|c| c.borrow().as_ref().map(|c| (c.exec.clone(), c.tid)));
    if let Some((e, t)) = c { e.unpark(Some(t), target) }
}
/// blocks the caller until no other thread can run; tells what the others are doing
pub fn wait_quiescent() -> Quiescence { with_ctx(|e, t| e.wait_quiescent(t)).expect("wait_quiescent outside an execution") }
/// harness-level "I am waiting for somebody else" (retry loops)
pub fn yield_now() { with_ctx(|e, t| e.yield_now(t)); }
/// an explicit scheduling point in harness code
pub fn step() { with_ctx(|e, t| e.step(t, false)); }
pub fn tid() -> usize { with_ctx(|_, t| t).unwrap_or(usize::MAX) }

/// a fresh, globally ordered stamp (call / return stamps of harness-level operations)
pub fn now() -> u32 {
    with_ctx(|e, _| { let mut st = e.st.lock().unwrap(); st.stamp += 1; st.stamp }).unwrap_or(0)
}

/// appends to the observation log
pub fn rec(op: &'static str, a: i64, b: i64) {
    with_ctx(|e, t| {
        let mut st = e.st.lock().unwrap();
        st.stamp += 1;
        let stamp = st.stamp;
        st.log.push(Rec { tid: t as u8, stamp, op, a, b });
    });
}

struct WakeTarget { exec: Arc<Exec>, tid: usize }
impl Wake for WakeTarget {
    fn wake(self: Arc<Self>) { self.wake_by_ref() }
    fn wake_by_ref(self: &Arc<Self>) {
        let caller = CTX.with(|c| c.borrow().as_ref().map(|c| c.tid));
        self.exec.unpark(caller, self.tid);
    }
}

/// A `Waker` that unparks the calling logical thread. Each call creates a *distinct* waker (will_wake() false between them).
pub fn waker_for_me() -> Waker {
    let (exec, tid) = CTX.with(|c| c.borrow().as_ref().map(|c| (c.exec.clone(), c.tid))).expect("waker_for_me outside an execution");
    Waker::from(Arc::new(WakeTarget { exec, tid }))
}

// ==================================================================================================================
// one execution

pub type Body = Box<dyn FnOnce() + Send + 'static>;

pub struct Outcome {
    pub terminal: Terminal,
    pub log: Vec<Rec>,
    pub points: Vec<Point>,
    pub steps: u64,
    pub statuses: Vec<Status>,
    pub panics: Vec<Option<String>>,
    pub engine_error: Option<String>,
    pub trace: Option<Vec<String>>,
}

impl Outcome {
    pub fn choices(&self) -> Vec<u8> { self.points.iter().map(|p| p.chosen).collect() }
}

struct Task { exec: Arc<Exec>, tid: usize, body: Body }
struct PoolThread { tx: std::sync::mpsc::Sender<Task>, done_rx: std::sync::mpsc::Receiver<()> }
thread_local! {
    static POOL: RefCell<Vec<PoolThread>> = const { RefCell::new(Vec::new()) };
}
impl PoolThread {
    fn spawn() -> Self {
        let (tx, rx) = std::sync::mpsc::channel::<Task>();
        let (done_tx, done_rx) = std::sync::mpsc::channel::<()>();
        std::thread::Builder::new().stack_size(1024 * 1024).spawn(move || {
            while let Ok(task) = rx.recv() {
                logical_thread(task.exec, task.tid, task.body);
                if done_tx.send(()).is_err() { break }
            }
        }).expect("spawn");
        PoolThread { tx, done_rx }
    }
}

fn logical_thread(exec: Arc<Exec>, tid: usize, body: Body) {
    CTX.with(|c| *c.borrow_mut() = Some(Ctx { exec: exec.clone(), tid, abort_events: 0 }));
    // wait for the baton
    {
        let mut st = exec.st.lock().unwrap();
        while !(st.current == tid && !st.aborting) && !(st.aborting && st.unwinding == Some(tid)) {
            st = exec.cvs[tid].wait(st).unwrap();
        }
        if st.aborting {
            drop(st);
            drop(body);
            let mut st = exec.st.lock().unwrap();
            st.threads[tid].status = Status::Finished;
            st.unwinding = None;
            exec.main_cv.notify_all();
            drop(st);
            CTX.with(|c| *c.borrow_mut() = None);
            return;
        }
        st.threads[tid].status = Status::Runnable;
    }
    let result = panic::catch_unwind(AssertUnwindSafe(body));
    let aborted = match &result {
        Err(p) => p.downcast_ref::<AbortToken>().is_some(),
        Ok(_) => false,
    };
    drop(result);
    let mut st = exec.st.lock().unwrap();
    st.threads[tid].status = Status::Finished;
    if let Some(a) = st.locks.iter().filter(|(_, &o)| o == tid).map(|(&a, _)| a).next() { st.locks.remove(&a); }
    if st.aborting || aborted {
        if st.unwinding == Some(tid) { st.unwinding = None }
        exec.main_cv.notify_all();
        drop(st);
    } else {
        // normal end (or a panic of the subject, already recorded by the panic hook): pick the next thread
        Exec::bump(&mut st, tid);
        st.steps += 1;
        let _st = exec.choose_and_switch_finished(st, tid);
    }
    CTX.with(|c| *c.borrow_mut() = None);
}

/// Runs the given thread bodies once, replaying `prefix` and taking choice 0 afterwards.
pub fn run_once(bodies: Vec<Body>, prefix: &[u8], want_trace: bool) -> Outcome {
    let n = bodies.len();
    let exec = Arc::new(Exec {
        st: Mutex::new(State {
            current: usize::MAX,
            threads: (0..n).map(|_| TState {
                status: Status::NotStarted, unpark_token: false, yield_pending: false, own_writes: 0,
                last_yield_foreign: None, spin_blocked: None, grace_used: 0, pending_write: false, panicked: None,
            }).collect(),
            epoch: 0,
            locks: HashMap::new(),
            prefix: prefix.to_vec(),
            points: Vec::with_capacity(128),
            steps: 0,
            stamp: 0,
            log: Vec::with_capacity(32),
            terminal: None,
            aborting: false,
            unwinding: None,
            abandoned: vec![false; n],
            engine_error: None,
            trace: if want_trace { Some(Vec::new()) } else { None },
        }),
        cvs: (0..n).map(|_| Condvar::new()).collect(),
        main_cv: Condvar::new(),
    });

    // logical threads run on pooled OS threads (spawning per execution dominated the cost)
    let mut acks = Vec::with_capacity(n);
    POOL.with(|pool| {
        let mut pool = pool.borrow_mut();
        for (tid, body) in bodies.into_iter().enumerate() {
            if pool.len() <= tid { pool.push(PoolThread::spawn()); }
            if pool[tid].tx.send(Task { exec: exec.clone(), tid, body }).is_err() {
                pool[tid] = PoolThread::spawn();
                panic!("mcx: pooled thread died");
            }
            acks.push(tid);
        }
    });

    // start: a free choice of the first thread
    {
        let mut st = exec.st.lock().unwrap();
        let order: Vec<usize> = (0..n).collect();
        let idx = if order.len() == 1 { 0 } else {
            let c = if !st.prefix.is_empty() { st.prefix[0] as usize } else { 0 };
            st.points.push(Point { n: order.len() as u8, chosen: c.min(order.len() - 1) as u8, preemptive: free_cost() });
            if c >= order.len() { st.engine_error = Some("replay divergence at the start point".into()); 0 } else { c }
        };
        st.current = order[idx];
        exec.cvs[order[idx]].notify_one();
        // wait for a terminal state
        while st.terminal.is_none() {
            st = exec.main_cv.wait(st).unwrap();
        }
        // abort phase: unwind the remaining threads one at a time
        if st.aborting {
            loop {
                if st.unwinding.is_none() {
                    let Some(t) = (0..n).find(|&t| st.threads[t].status != Status::Finished) else { break };
                    st.unwinding = Some(t);
                    exec.cvs[t].notify_one();
                }
                let (g, _timeout) = exec.main_cv.wait_timeout(st, std::time::Duration::from_millis(20)).unwrap();
                st = g;
            }
        }
    }
    let abandoned = exec.st.lock().unwrap().abandoned.clone();
    POOL.with(|pool| {
        let mut pool = pool.borrow_mut();
        for t in acks {
            if abandoned[t] {
                // that OS thread never comes back: replace it
                pool[t] = PoolThread::spawn();
            } else {
                let _ = pool[t].done_rx.recv();
            }
        }
    });
    let mut st = exec.st.lock().unwrap();
    Outcome {
        terminal: st.terminal.unwrap(),
        log: std::mem::take(&mut st.log),
        points: std::mem::take(&mut st.points),
        steps: st.steps,
        statuses: st.threads.iter().map(|t| t.status).collect(),
        panics: st.threads.iter_mut().map(|t| t.panicked.take()).collect(),
        engine_error: st.engine_error.take(),
        trace: st.trace.take(),
    }
}

impl Exec {
    /// scheduling decision made by a thread that has just finished
    fn choose_and_switch_finished<'a>(self: &'a Arc<Self>, st: std::sync::MutexGuard<'a, State>, tid: usize) -> std::sync::MutexGuard<'a, State> {
        // a finished thread is never enabled, so this either hands the baton over and returns immediately (we must not
        // wait for it again) or reaches a terminal state
        let mut st = st;
        loop {
            let n = st.threads.len();
            let order: Vec<usize> = (1..n).map(|k| (tid + k) % n).filter(|&t| Self::enabled(&st, t)).collect();
            if order.is_empty() {
                if let Some(w) = (0..n).find(|&t| st.threads[t].status == Status::WaitQuiescent) {
                    st.threads[w].status = Status::Runnable;
                    continue;
                }
                if let Some(s) = (0..n).find(|&t| matches!(st.threads[t].status, Status::Runnable | Status::NotStarted)
                                                 && Self::is_spin_blocked(&st, t) && st.threads[t].grace_used < SPIN_GRACE) {
                    st.threads[s].grace_used += 1;
                    st.threads[s].spin_blocked = None;
                    st.threads[s].last_yield_foreign = Some(Self::foreign(&st, s));
                    continue;
                }
                let all_done = st.threads.iter().all(|t| t.status == Status::Finished);
                let any_spin = (0..n).any(|t| matches!(st.threads[t].status, Status::Runnable | Status::NotStarted | Status::BlockedLock(_)));
                st.terminal = Some(if all_done { Terminal::Done } else if any_spin { Terminal::Stall } else { Terminal::Quiescent });
                if !all_done { st.aborting = true; st.current = usize::MAX; }
                self.main_cv.notify_all();
                return st;
            }
            let idx = if order.len() == 1 { 0 } else {
                let pos = st.points.len();
                let c = if pos < st.prefix.len() { st.prefix[pos] as usize } else { 0 };
                if c >= order.len() {
                    st.engine_error = Some(format!("replay divergence at point {pos}: choice {c} of {}", order.len()));
                    st.terminal = Some(Terminal::Runaway);
                    st.aborting = true; st.current = usize::MAX;
                    self.main_cv.notify_all();
                    return st;
                }
                st.points.push(Point { n: order.len() as u8, chosen: c as u8, preemptive: free_cost() });
                c
            };
            st.current = order[idx];
            self.cvs[order[idx]].notify_one();
            return st;
        }
    }
}

// ==================================================================================================================
// exploration

pub struct Instance {
    pub bodies: Vec<Body>,
    /// judges one execution; returns violations as (kind, detail)
    pub check: Box<dyn FnOnce(&Outcome) -> Vec<(String, String)>>,
}

#[derive(Default, Debug, Clone)]
pub struct ExploreStats {
    pub schedules: u64,
    pub steps: u64,
    pub points: u64,
    pub max_points: usize,
    pub terminals: [u64; 4],
    pub outcome_hashes: std::collections::HashSet<u64>,
    pub capped: bool,
    pub samples: Vec<String>,
}

pub struct Found {
    pub kind: String,
    pub detail: String,
    pub choices: Vec<u8>,
    pub bound: u32,
}

fn hash_outcome(o: &Outcome) -> u64 {
    use std::hash::{Hash, Hasher};
    let mut h = std::collections::hash_map::DefaultHasher::new();
    o.terminal.hash(&mut h);
    for r in &o.log { (r.tid, r.op, r.a, r.b).hash(&mut h); }
    h.finish()
}

pub fn fmt_log(log: &[Rec]) -> String {
    log.iter().map(|r| format!("t{}:{}({},{})@{}", r.tid, r.op, r.a, r.b, r.stamp)).collect::<Vec<_>>().join(" ")
}

/// Depth-first exploration of every schedule of `make()` with at most `bound` preemptions.
/// `shard`/`nshards` partition the first-level subtrees (the root execution belongs to shard 0).
/// `on_exec` is called with (prefix about to run) so that a crash can be attributed.
pub fn explore(make: &dyn Fn() -> Instance, bound: u32, shard: usize, nshards: usize, deadline: Option<std::time::Instant>,
               max_found: usize, mut on_exec: impl FnMut(&[u8])) -> (ExploreStats, Vec<Found>, Option<String>) {
    let mut stats = ExploreStats::default();
    let mut found: Vec<Found> = Vec::new();
    let mut stack: Vec<(Vec<u8>, u32)> = vec![(Vec::new(), 0)];
    let mut root = true;
    while let Some((prefix, cost)) = stack.pop() {
        if let Some(d) = deadline { if std::time::Instant::now() > d { stats.capped = true; break } }
        on_exec(&prefix);
        let inst = make();
        let out = run_once(inst.bodies, &prefix, false);
        if let Some(e) = &out.engine_error {
            return (stats, found, Some(format!("{e} (prefix {:?})", prefix)));
        }
        if out.terminal == Terminal::Runaway {
            return (stats, found, Some(format!("step cap exceeded (prefix {:?})", prefix)));
        }
        let mine = !root || shard == 0;
        if mine {
            stats.schedules += 1;
            stats.steps += out.steps;
            stats.points += out.points.len() as u64;
            stats.max_points = stats.max_points.max(out.points.len());
            stats.terminals[match out.terminal { Terminal::Done => 0, Terminal::Quiescent => 1, Terminal::Stall => 2, Terminal::Runaway => 3 }] += 1;
            if stats.outcome_hashes.len() < 20_000 { stats.outcome_hashes.insert(hash_outcome(&out)); }
            if stats.samples.len() < 2 || (stats.samples.len() < 3 && cost > 0) {
                stats.samples.push(format!("choices={:?} terminal={:?} log=[{}]", out.choices(), out.terminal, fmt_log(&out.log)));
            }
            let violations = (inst.check)(&out);
            for (kind, detail) in violations {
                // at most `max_found` per distinct kind (DFS order, so the first ones have the longest default suffix)
                if found.iter().filter(|f| f.kind == kind).count() < max_found {
                    found.push(Found { kind, detail, choices: out.choices(), bound: cost });
                }
            }
        }
        // alternatives
        let mut c = cost;
        // cost accumulated along the prefix is `cost`; beyond the prefix every choice was 0 (free)
        let start = prefix.len();
        let mut k = 0usize;
        for i in start..out.points.len() {
            let p = out.points[i];
            let alt_cost = c + if p.preemptive { 1 } else { 0 };
            if alt_cost <= bound {
                for alt in 1..p.n {
                    if root {
                        let s = k % nshards; k += 1;
                        if s != shard { continue }
                    }
                    let mut np = Vec::with_capacity(i + 1);
                    np.extend(out.points[..i].iter().map(|p| p.chosen));
                    np.push(alt);
                    stack.push((np, alt_cost));
                }
            }
            let _ = &mut c;
        }
        root = false;
    }
    (stats, found, None)
}

/// Re-executes a schedule twice and checks both observation logs are identical (determinism self-check).
/// Returns the first run's outcome together with the verdict of *its own* instance (oracles may look at the objects of the run).
pub fn replay_check(make: &dyn Fn() -> Instance, choices: &[u8]) -> Result<(Outcome, Vec<(String, String)>), String> {
    let ia = make();
    let a = run_once(ia.bodies, choices, true);
    let va = (ia.check)(&a);
    let ib = make();
    let b = run_once(ib.bodies, choices, false);
    let vb = (ib.check)(&b);
    if a.log != b.log || a.terminal != b.terminal || a.choices() != b.choices() || va != vb {
        return Err(format!("replay divergence: two runs of the same schedule differ\n A: {:?} {} {:?}\n B: {:?} {} {:?}", a.terminal, fmt_log(&a.log), va, b.terminal, fmt_log(&b.log), vb));
    }
    Ok((a, va))
}
