//! C06 -- graceful close returns only after every accepted event was processed (E3 over Uni / Multi; the channel-level E1 part is in c06e1.rs)
//! C12 -- executor life cycle: close callbacks exactly once, after the last item; Uni latch; sequential old -> new transition
//!
//! One tuple = (channel kind, MAX_STREAMS, executor kind, instruments, concurrency limit, futures timeout, per-event behaviour,
//! send spacing, what happens before the close, when the close is issued). Both properties are judged on the same executions.

use crate::asyncx::{self, *};
use crate::common::*;
use crate::registry::Tier;
use futures::StreamExt;
use reactive_mutiny::multi::Multi;
use reactive_mutiny::prelude::advanced::*;
use reactive_mutiny::stream_executor::{ExecutorStatus, StreamExecutorStats};
use reactive_mutiny::uni::{GenericUni, Uni};
use std::sync::atomic::Ordering::Relaxed;
use std::sync::{Arc, Mutex};
use std::time::Duration;

#[derive(Debug, Clone, Copy, PartialEq, Eq, Hash)]
pub enum Exec { FalFut, Fut, Fal, Plain }
impl Exec {
    pub fn name(self) -> &'static str { match self { Exec::FalFut => "fallible-futures", Exec::Fut => "futures", Exec::Fal => "fallibles", Exec::Plain => "plain" } }
    pub fn futures(self) -> bool { matches!(self, Exec::FalFut | Exec::Fut) }
    pub fn alphabet(self, with_timeout: bool) -> Vec<Class> {
        match self {
            Exec::FalFut => if with_timeout { vec![Class::Ok, Class::SlowErr, Class::LateOk] } else { vec![Class::Ok, Class::Err, Class::SlowOk, Class::LateErr] },
            Exec::Fut => if with_timeout { vec![Class::Ok, Class::SlowOk, Class::LateOk] } else { vec![Class::Ok, Class::SlowOk, Class::LateOk] },
            Exec::Fal => vec![Class::Ok, Class::Err],
            Exec::Plain => vec![Class::Ok],
        }
    }
}

/// what precedes the unbounded close
#[derive(Debug, Clone, Copy, PartialEq, Eq, Hash)]
pub enum Pre { Nothing, CancelAll }

#[derive(Debug, Clone)]
pub struct Cfg {
    pub uni: Option<UniKind>, pub multi: Option<MultiKind>,
    pub m: usize, pub instruments: usize, pub exec: Exec, pub limit: u32, pub timeout_ms: u64,
    pub seq: Vec<Class>, pub gap_ms: u64, pub pre: Pre, pub close_delay_ms: u64,
    /// Multi: number of executors (listeners); Uni: unused
    pub listeners: usize,
    /// Multi: this executor is removed with flush_and_cancel_executor before the others are closed (C12)
    pub remove_first: bool,
}

#[derive(Debug, Clone, Default)]
pub struct ExecEnd { pub calls: u32, pub at: u64, pub status: Option<ExecutorStatus>, pub start_delta: u64, pub finish_delta: u64, pub finished_executors_seen: u32 }

#[derive(Debug, Clone, Default)]
pub struct Obs {
    pub close_called: u64, pub close_returned: u64, pub close_answer: bool, pub close_finished: bool,
    /// per item (listener-major for Multi): processed (completed or cancelled by the time-out) at the instant close returned
    pub processed_at_return: Vec<bool>, pub started_at_return: Vec<bool>,
    pub running_after: u32, pub open_after: bool, pub pending_after: u32,
    pub remove_returned: u64, pub remove_answer: bool, pub processed_at_remove: Vec<bool>,
}

type Ends = Arc<Mutex<Vec<ExecEnd>>>;

fn end_callback(ends: Ends, slot: usize, finished_counter: Option<Arc<dyn Fn() -> u32 + Send + Sync>>) -> impl FnOnce(Arc<dyn StreamExecutorStats + Send + Sync>) -> futures::future::BoxFuture<'static, ()> + Send + Sync + 'static {
    move |stats| Box::pin(async move {
        let mut e = ends.lock().unwrap();
        let e = &mut e[slot];
        e.calls += 1; e.at = vnow(); e.status = Some(stats.executor_status().load(Relaxed));
        e.start_delta = stats.execution_start_delta_nanos(); e.finish_delta = stats.execution_finish_delta_nanos();
        if let Some(f) = &finished_counter { e.finished_executors_seen = f() }
    })
}

fn snapshot(p: &SharedProbes) -> (Vec<bool>, Vec<bool>) {
    let p = p.lock().unwrap();
    (p.items.iter().map(|i| i.completed.is_some() || i.cancelled).collect(), p.items.iter().map(|i| i.started.is_some()).collect())
}

async fn send_all<S: Fn(u32) -> bool>(n: usize, gap_ms: u64, send: S) {
    for i in 0..n {
        if gap_ms > 0 && i > 0 { tokio::time::sleep(Duration::from_millis(gap_ms)).await }
        while !send(i as u32) { tokio::task::yield_now().await }
    }
}

// ------------------------------------------------------------------------------------------------ Uni

fn run_uni<C, const I: usize>(cfg: &Cfg) -> (Probes, Obs, Vec<ExecEnd>)
where C: FullDuplexUniChannel<ItemType = u32> + Send + Sync + 'static, C::DerivedItemType: Val + Send + Sync + std::fmt::Debug + 'static {
    let n = cfg.seq.len();
    let probes = new_probes(n);
    let ends: Ends = Arc::new(Mutex::new(vec![ExecEnd::default(); 1]));
    let obs = Arc::new(Mutex::new(Obs::default()));
    let cfg2 = cfg.clone();
    let (p2, e2, o2) = (probes.clone(), ends.clone(), obs.clone());
    asyncx::run_virtual(async move {
        let cfg = cfg2;
        let classes = Arc::new(cfg.seq.clone());
        let uni = Uni::<u32, C, I, C::DerivedItemType>::new("u");
        let timeout = Duration::from_millis(cfg.timeout_ms);
        // the Uni's own callback (behind the latch): sees how many executors had finished when it ran
        let holder: Arc<Mutex<Option<Arc<Uni<u32, C, I, C::DerivedItemType>>>>> = Arc::new(Mutex::new(None));
        let h2 = holder.clone();
        let counter: Arc<dyn Fn() -> u32 + Send + Sync> = Arc::new(move || h2.lock().unwrap().as_ref().map(|u| u.finished_executors_count.load(Relaxed)).unwrap_or(u32::MAX));
        let cb = end_callback(e2.clone(), 0, Some(counter));
        let pe = p2.clone();
        let (pw, cw) = (p2.clone(), classes.clone());
        let work = move |item: C::DerivedItemType| { let v = item.val() as usize; drop(item); item_work(v, cw[v], pw.clone()) };
        let uni = match cfg.exec {
            Exec::FalFut => { let w = work.clone(); uni.spawn_executors(cfg.limit, timeout, move |s| { let w = w.clone(); s.map(move |it| w(it)) }, move |e| { pe.lock().unwrap().on_err.push(e.to_string()); async {} }, cb) }
            Exec::Fut => { let w = work.clone(); uni.spawn_futures_executors(cfg.limit, timeout, move |s| { let w = w.clone(); s.map(move |it| { let f = w(it); async move { f.await.unwrap_or(u32::MAX) } }) }, cb) }
            Exec::Fal | Exec::Plain => {
                let (pw, cw) = (p2.clone(), classes.clone());
                let sync_work = move |item: C::DerivedItemType| -> Result<u32, BoxErr> {
                    let v = item.val() as usize; drop(item);
                    { let mut pr = pw.lock().unwrap(); let now = vnow(); pr.items[v].started = Some(now); pr.items[v].completed = Some(now); pr.items[v].starts += 1; pr.start_order.push(v); }
                    if cw[v].is_err() { Err(format!("E{v}").into()) } else { Ok(v as u32) }
                };
                if cfg.exec == Exec::Fal { let w = sync_work.clone(); uni.spawn_fallibles_executors(cfg.limit, move |s| { let w = w.clone(); s.map(move |it| w(it)) }, move |e| { pe.lock().unwrap().on_err.push(e.to_string()) }, cb) }
                else { let w = sync_work.clone(); uni.spawn_non_futures_non_fallibles_executors(cfg.limit, move |s| { let w = w.clone(); s.map(move |it| w(it).unwrap_or(u32::MAX)) }, cb) }
            }
        };
        *holder.lock().unwrap() = Some(uni.clone());
        send_all(n, cfg.gap_ms, |v| matches!(uni.send(v), keen_retry::RetryResult::Ok { .. })).await;
        if cfg.close_delay_ms > 0 { tokio::time::sleep(Duration::from_millis(cfg.close_delay_ms)).await }
        if cfg.pre == Pre::CancelAll { uni.channel.cancel_all_streams() }
        o2.lock().unwrap().close_called = vnow();
        let r = tokio::time::timeout(Duration::from_secs(2), uni.close(Duration::ZERO)).await;
        {
            let mut o = o2.lock().unwrap();
            o.close_returned = vnow(); o.close_finished = r.is_ok(); o.close_answer = r.unwrap_or(false);
            let (pr, st) = snapshot(&p2); o.processed_at_return = pr; o.started_at_return = st;
            o.running_after = uni.channel.running_streams_count(); o.open_after = uni.channel.is_channel_open(); o.pending_after = uni.channel.pending_items_count();
        }
        tokio::time::sleep(Duration::from_millis(50)).await;
        *holder.lock().unwrap() = None;
    });
    let p = std::mem::take(&mut *probes.lock().unwrap());
    let o = obs.lock().unwrap().clone();
    let e = ends.lock().unwrap().clone();
    (p, o, e)
}

// ------------------------------------------------------------------------------------------------ Multi

fn run_multi<C, const I: usize>(cfg: &Cfg) -> (Probes, Obs, Vec<ExecEnd>)
where C: FullDuplexMultiChannel<ItemType = u32> + Send + Sync + 'static, C::DerivedItemType: Val + Send + Sync + std::fmt::Debug + 'static {
    let n = cfg.seq.len();
    let l = cfg.listeners;
    let probes = new_probes(n * l);
    let ends: Ends = Arc::new(Mutex::new(vec![ExecEnd::default(); l]));
    let obs = Arc::new(Mutex::new(Obs::default()));
    let cfg2 = cfg.clone();
    let (p2, e2, o2) = (probes.clone(), ends.clone(), obs.clone());
    let name = chan_name_unique("c06");
    let name2 = name.clone();
    asyncx::run_virtual(async move {
        let cfg = cfg2;
        let classes = Arc::new(cfg.seq.clone());
        let multi = Multi::<u32, C, I, C::DerivedItemType>::new(name2);
        let timeout = Duration::from_millis(cfg.timeout_ms);
        for k in 0..l {
            let cb = end_callback(e2.clone(), k, None);
            let pe = p2.clone();
            let (pw, cw) = (p2.clone(), classes.clone());
            // the second listener is the slower one: its items take the class of the *next* event (rotated), so the listeners finish at different instants
            let class_of = move |v: usize| if k == 0 { cw[v] } else { cw[(v + 1) % cw.len()] };
            let work = { let pw = pw.clone(); let class_of = class_of.clone(); move |item: C::DerivedItemType| { let v = item.val() as usize; drop(item); item_work(k * n + v, class_of(v), pw.clone()) } };
            let r = match cfg.exec {
                Exec::FalFut => multi.spawn_executor(cfg.limit, timeout, format!("L{k}"), move |s| s.map(move |it| work(it)), move |e| { pe.lock().unwrap().on_err.push(e.to_string()); async {} }, cb).await,
                Exec::Fut => multi.spawn_futures_executor(cfg.limit, timeout, format!("L{k}"), move |s| s.map(move |it| { let f = work(it); async move { f.await.unwrap_or(u32::MAX) } }), cb).await,
                Exec::Fal | Exec::Plain => {
                    let sync_work = move |item: C::DerivedItemType| -> Result<u32, BoxErr> {
                        let v = item.val() as usize; drop(item);
                        { let mut pr = pw.lock().unwrap(); let now = vnow(); let it = &mut pr.items[k * n + v]; it.started = Some(now); it.completed = Some(now); it.starts += 1; }
                        if class_of(v).is_err() { Err(format!("E{}", k * n + v).into()) } else { Ok(v as u32) }
                    };
                    if cfg.exec == Exec::Fal { multi.spawn_fallibles_executor(cfg.limit, format!("L{k}"), move |s| s.map(move |it| sync_work(it)), move |e| { pe.lock().unwrap().on_err.push(e.to_string()) }, cb).await }
                    else { multi.spawn_non_futures_non_fallible_executor(cfg.limit, format!("L{k}"), move |s| s.map(move |it| sync_work(it).unwrap_or(u32::MAX)), cb).await }
                }
            };
            r.expect("spawn executor");
        }
        send_all(n, cfg.gap_ms, |v| matches!(multi.send(v), keen_retry::RetryResult::Ok { .. })).await;
        if cfg.close_delay_ms > 0 { tokio::time::sleep(Duration::from_millis(cfg.close_delay_ms)).await }
        if cfg.remove_first {
            let r = tokio::time::timeout(Duration::from_secs(2), multi.flush_and_cancel_executor("L0", Duration::ZERO)).await;
            let mut o = o2.lock().unwrap();
            o.remove_returned = vnow(); o.remove_answer = r.unwrap_or(false);
            o.processed_at_remove = snapshot(&p2).0;
        }
        if cfg.pre == Pre::CancelAll { multi.channel.cancel_all_streams() }
        o2.lock().unwrap().close_called = vnow();
        let r = tokio::time::timeout(Duration::from_secs(2), multi.close(Duration::ZERO)).await;
        {
            let mut o = o2.lock().unwrap();
            o.close_returned = vnow(); o.close_finished = r.is_ok(); o.close_answer = r.unwrap_or(false);
            let (pr, st) = snapshot(&p2); o.processed_at_return = pr; o.started_at_return = st;
            o.running_after = multi.channel.running_streams_count(); o.open_after = multi.channel.is_channel_open(); o.pending_after = multi.channel.pending_items_count();
        }
        tokio::time::sleep(Duration::from_millis(50)).await;
        drop(multi);
    });
    cleanup_mmap(&name);
    let p = std::mem::take(&mut *probes.lock().unwrap());
    let o = obs.lock().unwrap().clone();
    let e = ends.lock().unwrap().clone();
    (p, o, e)
}

fn run_dispatch(cfg: &Cfg) -> (Probes, Obs, Vec<ExecEnd>) {
    macro_rules! uni { ($M:literal, $I:literal) => { match cfg.uni.unwrap() {
        UniKind::MA => run_uni::<ChannelUniMoveAtomic<u32, 8, $M>, $I>(cfg), UniKind::MF => run_uni::<ChannelUniMoveFullSync<u32, 8, $M>, $I>(cfg), UniKind::MC => run_uni::<ChannelUniMoveCrossbeam<u32, 8, $M>, $I>(cfg),
        UniKind::ZA => run_uni::<ChannelUniZeroCopyAtomic<u32, 8, $M>, $I>(cfg), UniKind::ZF => run_uni::<ChannelUniZeroCopyFullSync<u32, 8, $M>, $I>(cfg) } } }
    macro_rules! multi { ($I:literal) => { match cfg.multi.unwrap() {
        MultiKind::AA => run_multi::<ChannelMultiArcAtomic<u32, 8, 2>, $I>(cfg), MultiKind::AF => run_multi::<ChannelMultiArcFullSync<u32, 8, 2>, $I>(cfg), MultiKind::AC => run_multi::<ChannelMultiArcCrossbeam<u32, 8, 2>, $I>(cfg),
        MultiKind::OA => run_multi::<ChannelMultiOgreArcAtomic<u32, 8, 2>, $I>(cfg), MultiKind::OF => run_multi::<ChannelMultiOgreArcFullSync<u32, 8, 2>, $I>(cfg), MultiKind::ML => run_multi::<ChannelMultiMmapLog<u32, 2>, $I>(cfg) } } }
    if cfg.uni.is_some() {
        // (few (MAX_STREAMS, instruments) pairs: every pair instantiates all executor code for every channel kind; instrument settings are C11's business)
        match (cfg.m, cfg.instruments, cfg.uni.unwrap()) {
            (1, 7, _) => uni!(1, 7), (2, 0, _) => uni!(2, 0),
            (4, 7, UniKind::MF) => run_uni::<ChannelUniMoveFullSync<u32, 8, 4>, 7>(cfg), (4, 7, UniKind::ZA) => run_uni::<ChannelUniZeroCopyAtomic<u32, 8, 4>, 7>(cfg),
            x => panic!("uni (M, I, kind) = {:?}", x) }
    } else {
        match cfg.instruments { 0 => multi!(0), 7 => multi!(7), x => panic!("multi I = {x}") }
    }
}

/// family = what a finding is attributed to: channel kind, executor kind and whether items are processed one at a time (`for_each`) or
/// concurrently (`for_each_concurrent`); everything else is the rung
fn family(cfg: &Cfg) -> String {
    let chan = match (cfg.uni, cfg.multi) { (Some(k), _) => format!("uni-{}", k.name()), (_, Some(k)) => format!("multi-{}", k.name()), _ => unreachable!() };
    format!("{chan}/{}/{}", cfg.exec.name(), if cfg.limit == 1 { "L1" } else { "L2+" })
}
fn rung(cfg: &Cfg) -> String {
    let shape = if cfg.uni.is_some() { format!("m{}", cfg.m) } else { format!("listeners{}{}", cfg.listeners, if cfg.remove_first { "-remove-first" } else { "" }) };
    format!("{shape}-limit{}-timeout{}-{}-i{}-gap{}-delay{}-{}", cfg.limit, cfg.timeout_ms, match cfg.pre { Pre::Nothing => "close", Pre::CancelAll => "cancel-then-close" }, cfg.instruments, cfg.gap_ms, cfg.close_delay_ms, seq_name(&cfg.seq))
}

/// runs one tuple and judges it for `prop` ("C06" or "C12")
pub fn judge(prop: &str, cfg: &Cfg) -> Vec<(String, String)> {
    let (p, o, ends) = run_dispatch(cfg);
    let n = cfg.seq.len();
    let total = p.items.len();
    let ms = |t: u64| t as f64 / 1e6;
    let ctx = format!("events {} -> started {:?} ms, completed {:?} ms, cancelled {:?}; close called {} ms, returned {} ms (answer {}); executor callbacks {:?}",
        seq_name(&cfg.seq), p.items.iter().map(|i| i.started.map(ms)).collect::<Vec<_>>(), p.items.iter().map(|i| i.completed.map(ms)).collect::<Vec<_>>(), p.items.iter().map(|i| i.cancelled).collect::<Vec<_>>(),
        ms(o.close_called), ms(o.close_returned), o.close_answer, ends.iter().map(|e| (e.calls, ms(e.at), e.status)).collect::<Vec<_>>());
    asyncx::note_run(total as u64 * 3 + 4, asyncx::fingerprint(&(o.close_returned, o.processed_at_return.clone(), p.items.iter().map(|i| (i.started, i.completed, i.cancelled)).collect::<Vec<_>>(), ends.iter().map(|e| (e.calls, e.at)).collect::<Vec<_>>())), ctx.clone());
    let mut v: Vec<(String, String)> = Vec::new();
    let timeout = cfg.exec.futures() && cfg.timeout_ms != 0;
    if prop == "C06" {
        if !o.close_finished { v.push(("close-never-returns".into(), format!("an unbounded close did not return within 2 virtual seconds: {ctx}"))); return v }
        // every event was accepted before the call (the driver sends first); each listener is entitled to all of them
        // (a listener removed beforehand with flush_and_cancel_executor is not a stream of the channel any more)
        let first = if cfg.remove_first { n } else { 0 };
        let unprocessed: Vec<usize> = (first..total).filter(|i| !o.processed_at_return[*i]).collect();
        if !unprocessed.is_empty() {
            let in_flight_only = unprocessed.iter().all(|i| o.started_at_return[*i]);
            let kind = if in_flight_only { "close-returned-with-items-in-flight" } else { "close-returned-with-items-unprocessed" };
            v.push((kind.into(), format!("close returned while item(s) {:?} were {}: {ctx}", unprocessed, if in_flight_only { "still inside their pipeline futures" } else { "not yet (all) taken up by the pipeline" })));
        }
        if !o.close_answer { v.push(("close-answered-false".into(), format!("an unbounded close answered false: {ctx}"))) }
        if o.running_after != 0 { v.push(("streams-still-running".into(), format!("running_streams_count() = {} right after close returned: {ctx}", o.running_after))) }
        if o.open_after { v.push(("channel-still-open".into(), format!("is_channel_open() is still true right after close returned: {ctx}"))) }
        if o.pending_after != 0 { v.push(("events-discarded".into(), format!("pending_items_count() = {} after close: {ctx}", o.pending_after))) }
        for (i, it) in p.items.iter().enumerate().skip(first) {
            if it.started.is_none() { v.push(("event-discarded".into(), format!("accepted event #{} (listener {}) never reached the pipeline: {ctx}", i % n.max(1), i / n.max(1)))) }
            else if it.completed.is_none() && !(timeout && it.cancelled) { v.push(("event-discarded".into(), format!("the processing of event #{} was abandoned: {ctx}", i % n.max(1)))) }
        }
    } else {
        // C12
        for (k, e) in ends.iter().enumerate() {
            let who = if cfg.uni.is_some() { "the Uni's close callback".to_string() } else { format!("executor L{k}'s close callback") };
            if e.calls == 0 { v.push(("close-callback-missing".into(), format!("{who} never ran: {ctx}"))); continue }
            if e.calls != 1 { v.push(("close-callback-repeated".into(), format!("{who} ran {} times: {ctx}", e.calls))) }
            let mine = if cfg.uni.is_some() { 0..total } else { k * n..(k + 1) * n };
            let last = p.items[mine.clone()].iter().filter_map(|i| i.completed).max().unwrap_or(0);
            if e.at < last || p.items[mine].iter().any(|i| i.started.map(|s| s <= e.at).unwrap_or(false) && i.completed.map(|c| c > e.at).unwrap_or(!i.cancelled)) { v.push(("close-callback-early".into(), format!("{who} ran at {} ms, before the last item of its stream(s) was processed ({} ms): {ctx}", ms(e.at), ms(last)))) }
            let scheduled = cfg.multi.is_some() && cfg.remove_first && k == 0;
            // one of the two ended states; "programmatically ended" only if it had been scheduled to finish (the converse is not demanded:
            // an executor scheduled to finish before its task first ran starts as Running and ends as StreamEnded)
            let ok = e.status == Some(ExecutorStatus::StreamEnded) || (scheduled && e.status == Some(ExecutorStatus::ProgrammaticallyEnded));
            if !ok { v.push(("status".into(), format!("{who} found the executor in state {:?} ({}): {ctx}", e.status, if scheduled { "it had been scheduled to finish" } else { "it had never been scheduled to finish" }))) }
            if e.start_delta == u64::MAX || e.finish_delta == u64::MAX || e.finish_delta < e.start_delta { v.push(("finish-before-start".into(), format!("start delta {} / finish delta {}: {ctx}", e.start_delta, e.finish_delta))) }
            if cfg.uni.is_some() && e.finished_executors_seen != cfg.m as u32 { v.push(("latch".into(), format!("the Uni's close callback ran when {} of its {} executors had finished: {ctx}", e.finished_executors_seen, cfg.m))) }
        }
    }
    v
}

pub fn configs(prop: &str, tier: Tier) -> Vec<Cfg> {
    let mut v = Vec::new();
    let quick = tier == Tier::Quick;
    let max_len = if quick { 2 } else { 3 };
    for exec in [Exec::FalFut, Exec::Fut, Exec::Fal, Exec::Plain] {
        let timeouts = if exec.futures() { vec![0, TIMEOUT_MS] } else { vec![0] };
        for timeout_ms in timeouts {
            let limits: Vec<u32> = if exec.futures() { vec![1, 2, 3, 4] } else { vec![1, 2] };
            for limit in limits {
                let seqs = sequences(&exec.alphabet(timeout_ms != 0), max_len);
                for seq in &seqs {
                    for (gap_ms, close_delay_ms, pre) in [(0u64, 0u64, Pre::Nothing), (1, 0, Pre::Nothing), (0, 1, Pre::Nothing), (0, 3, Pre::Nothing), (0, 0, Pre::CancelAll), (0, 1, Pre::CancelAll)] {
                        if quick && (close_delay_ms == 3 || (gap_ms == 1 && pre == Pre::CancelAll)) { continue }
                        if seq.is_empty() && (gap_ms, close_delay_ms) != (0, 0) { continue }
                        for kind in UniKind::ALL {
                            for (m, instruments) in [(1usize, 7usize), (2, 0), (4, 7)] {
                                // MAX_STREAMS must be a power of two (3 does not compile)
                                if m >= 3 && !(prop == "C12" && matches!(kind, UniKind::MF | UniKind::ZA)) { continue }
                                if quick && limit == 4 { continue }
                                v.push(Cfg { uni: Some(kind), multi: None, m, instruments, exec, limit, timeout_ms, seq: seq.clone(), gap_ms, pre, close_delay_ms, listeners: 1, remove_first: false });
                            }
                        }
                        for kind in MultiKind::ALL {
                            for (listeners, remove_first) in [(1usize, false), (2, false), (2, true)] {
                                if remove_first && pre == Pre::CancelAll { continue }
                                if quick && (limit >= 3 || (listeners == 1 && kind != MultiKind::ML)) { continue }
                                let instruments = if listeners == 2 { 7 } else { 0 };
                                // the Arc channels wait (documented) when a listener's queue is full: 8 slots, at most 3 events -- never reached
                                v.push(Cfg { uni: None, multi: Some(kind), m: 2, instruments, exec, limit, timeout_ms, seq: seq.clone(), gap_ms, pre, close_delay_ms, listeners, remove_first });
                            }
                        }
                    }
                }
            }
        }
    }
    v
}

pub fn tuples(prop: &'static str, tier: Tier) -> Vec<Tuple> {
    configs(prop, tier).into_iter().map(|cfg| Tuple { family: family(&cfg), rung: rung(&cfg), run: Box::new(move || judge(prop, &cfg)) }).collect()
}
