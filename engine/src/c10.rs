//! C10 -- a listener sees exactly the events sent during its lifetime; stream ids recycle (E2: histories to a state fixpoint)

use crate::common::*;
use crate::seqx::{Bad, Config, Sys};
use crate::registry::Tier;
use futures::Stream;
use reactive_mutiny::prelude::advanced::*;
use reactive_mutiny::verif::VerifState;
use std::collections::VecDeque;
use std::pin::Pin;
use std::sync::Arc;
use std::task::{Context, Poll};

const B: usize = 4;
/// values cycle so that the state space is finite; the period exceeds everything a queue can hold
const PERIOD: u32 = 8;

struct Listener<S> { stream: S, expected: VecDeque<u32>, cancelled: bool }

pub fn configs(tier: Tier) -> Vec<Config> {
    let mut v = Vec::new();
    for kind in MultiKind::NON_LOG {
        for m in [1usize, 2, 4] {
            let depth = match (tier, m) { (Tier::Quick, 1) => 64, (Tier::Quick, 2) => 11, (Tier::Quick, _) => 7, (Tier::Thorough, 1) => 64, (Tier::Thorough, 2) => 64, (Tier::Thorough, _) => 11 };
            v.push(Config { name: format!("multi-{}/M{m}", kind.name()), max_depth: depth,
                build: Box::new(move || { macro_rules! mk { ($M:literal) => { match kind {
                    MultiKind::AA => Box::new(MultiSys::<ChannelMultiArcAtomic<u32, 4, $M>>::new($M)) as Box<dyn Sys>,
                    MultiKind::AF => Box::new(MultiSys::<ChannelMultiArcFullSync<u32, 4, $M>>::new($M)) as Box<dyn Sys>,
                    MultiKind::AC => Box::new(MultiSys::<ChannelMultiArcCrossbeam<u32, 4, $M>>::new($M)) as Box<dyn Sys>,
                    MultiKind::OA => Box::new(MultiSys::<ChannelMultiOgreArcAtomic<u32, 4, $M>>::new($M)) as Box<dyn Sys>,
                    MultiKind::OF => Box::new(MultiSys::<ChannelMultiOgreArcFullSync<u32, 4, $M>>::new($M)) as Box<dyn Sys>,
                    MultiKind::ML => unreachable!() } } }
                    match m { 1 => mk!(1), 2 => mk!(2), _ => mk!(4) } }) });
        }
    }
    v
}

// listeners are indexed by their stream id (known from creation), which makes the key canonical

pub struct MultiSys<C: FullDuplexMultiChannel<ItemType = u32> + 'static> {
    chan: Arc<C>,
    m: usize,
    /// indexed by stream id
    listeners: Vec<Option<Listener<MutinyStream<'static, u32, C, C::DerivedItemType>>>>,
    sends: u32,
}

impl<C> MultiSys<C> where C: FullDuplexMultiChannel<ItemType = u32> + VerifState + Send + Sync + 'static, C::DerivedItemType: Val {
    pub fn new(m: usize) -> Self { MultiSys { chan: C::new("c10"), m, listeners: (0..m).map(|_| None).collect(), sends: 0 } }
    fn live(&self) -> usize { self.listeners.iter().filter(|l| l.is_some()).count() }
}

impl<C> Sys for MultiSys<C> where C: FullDuplexMultiChannel<ItemType = u32> + VerifState + Send + Sync + 'static, C::DerivedItemType: Val {
    fn enabled(&self) -> Vec<String> {
        let mut v = Vec::new();
        if self.live() < self.m { v.push("create".to_string()) }
        if self.listeners.iter().flatten().all(|l| l.expected.len() < B - 1) { v.push("send".to_string()) }
        for (i, l) in self.listeners.iter().enumerate() { if l.is_some() { v.push(format!("poll #{i}")) } }
        for (i, l) in self.listeners.iter().enumerate() { if l.is_some() { v.push(format!("drop #{i}")) } }
        if self.listeners.iter().flatten().any(|l| !l.cancelled) { v.push("cancel_all".to_string()) }
        v
    }

    fn apply(&mut self, choice: usize) -> Result<String, Bad> {
        let op = self.enabled()[choice].clone();
        let obs;
        if op == "create" {
            let (stream, id) = self.chan.create_stream_for_new_events();
            if id as usize >= self.m { return Err(("bad-stream-id".into(), format!("create returned stream id {id} with MAX_STREAMS = {}", self.m))) }
            if self.listeners[id as usize].is_some() { return Err(("id-in-use".into(), format!("create returned stream id {id}, which belongs to a live listener"))) }
            self.listeners[id as usize] = Some(Listener { stream, expected: VecDeque::new(), cancelled: false });
            obs = format!("created #{id}");
        } else if op == "send" {
            let v = 1 + self.sends % PERIOD;
            match self.chan.send(v) {
                keen_retry::RetryResult::Ok { .. } => {
                    self.sends += 1;
                    for l in self.listeners.iter_mut().flatten() { l.expected.push_back(v) }
                    obs = format!("sent {v}");
                }
                _ => return Err(("rejected-with-room".into(), format!("send of {v} was rejected although every live listener holds fewer than {} events", B - 1))),
            }
        } else if let Some(i) = op.strip_prefix("poll #") {
            let i: usize = i.parse().unwrap();
            let l = self.listeners[i].as_mut().unwrap();
            let w = noop_waker();
            let mut cx = Context::from_waker(&w);
            let got = Pin::new(&mut l.stream).poll_next(&mut cx);
            let want = l.expected.front().copied();
            match (got, want) {
                (Poll::Ready(Some(item)), Some(w)) if item.val() == w => { l.expected.pop_front(); obs = format!("got {w}") }
                (Poll::Ready(Some(item)), Some(w)) => return Err(("wrong-event".into(), format!("listener #{i} yielded {} where {w} was next", item.val()))),
                (Poll::Ready(Some(item)), None) => return Err(("stale-event".into(), format!("listener #{i} yielded {} although everything sent during its lifetime was already yielded", item.val()))),
                (Poll::Pending, None) if !l.cancelled => obs = "pending".to_string(),
                (Poll::Ready(None), None) if l.cancelled => obs = "end".to_string(),
                (Poll::Pending, None) => return Err(("cancelled-but-pending".into(), format!("listener #{i} was cancelled, has nothing buffered, and answered Pending"))),
                (Poll::Ready(None), None) => return Err(("ended-uncancelled".into(), format!("listener #{i} was never told to end but answered end-of-stream"))),
                (Poll::Pending, Some(w)) | (Poll::Ready(None), Some(w)) => return Err(("missed-event".into(), format!("event {w} was sent during the lifetime of listener #{i} but its poll found nothing"))),
            }
        } else if let Some(i) = op.strip_prefix("drop #") {
            let i: usize = i.parse().unwrap();
            let l = self.listeners[i].take().unwrap();
            drop(l.stream);
            obs = "dropped".to_string();
        } else {
            self.chan.cancel_all_streams();
            for l in self.listeners.iter_mut().flatten() { l.cancelled = true }
            obs = "cancelled".to_string();
        }
        let running = self.chan.running_streams_count() as usize;
        if running != self.live() { return Err(("stream-accounting".into(), format!("after {op}: running_streams_count() = {running}, live listeners = {}", self.live()))) }
        let pending = self.chan.pending_items_count() as usize;
        let want = self.listeners.iter().flatten().map(|l| l.expected.len()).max().unwrap_or(0);
        if pending != want { return Err(("pending-count".into(), format!("after {op}: pending_items_count() = {pending}, the fullest live listener holds {want}"))) }
        Ok(obs)
    }

    fn key(&self) -> Vec<u64> {
        let mut k = Vec::new();
        self.chan.verif_state(&mut k);
        k.push(u64::MAX);
        k.push((self.sends % PERIOD) as u64);
        for l in &self.listeners {
            match l { None => k.push(0), Some(l) => { k.push(1 + l.cancelled as u64); k.extend(l.expected.iter().map(|v| *v as u64)) } }
            k.push(u64::MAX - 1);
        }
        k
    }

    /// after the history: every id can be taken again (MAX_STREAMS creations succeed once everybody left)
    fn epilogue(&mut self) -> Result<(), Bad> {
        for l in self.listeners.iter_mut() { *l = None }
        let mut fresh = Vec::new();
        for _ in 0..self.m { fresh.push(self.chan.create_stream_for_new_events()) }
        let mut ids: Vec<u32> = fresh.iter().map(|f| f.1).collect(); ids.sort();
        if ids != (0..self.m as u32).collect::<Vec<_>>() { return Err(("ids-exhausted".into(), format!("after every listener left, {} creations returned ids {:?}", self.m, ids))) }
        if self.chan.running_streams_count() as usize != self.m { return Err(("stream-accounting".into(), format!("{} live listeners, running_streams_count() = {}", self.m, self.chan.running_streams_count()))) }
        Ok(())
    }
}

// ------------------------------------------------------------------------------------------------ E1: a departing listener's id given to a new one

/// One listener leaves with `leftovers` unconsumed events while another thread, as soon as the stream count allows it, creates a new
/// listener (MAX_STREAMS is exhausted, so the new one is given the recycled id), sends one event and polls: the newcomer must yield
/// exactly that event -- nothing the departed listener left behind, and the event must not be swallowed by the departure.
#[derive(Debug, Clone)]
pub struct RecycleSpec { pub kind: MultiKind, pub m: usize, pub leftovers: usize }

fn make_recycle<C>(spec: RecycleSpec) -> crate::mcx::Instance
where C: FullDuplexMultiChannel<ItemType = u32> + Send + Sync + 'static, C::DerivedItemType: Val + Send + 'static {
    use crate::mcx;
    use std::sync::Mutex;
    type S<C> = MutinyStream<'static, u32, C, <C as FullDuplexMultiChannel>::DerivedItemType>;
    let chan: Arc<C> = C::new(chan_name("c10"));
    // MAX_STREAMS listeners: the last one is the victim, the others exist throughout
    let mut all: Vec<S<C>> = (0..spec.m).map(|_| chan.create_stream_for_new_events().0).collect();
    let victim = all.pop().unwrap();
    let stable = Mutex::new(all);
    for k in 0..spec.leftovers { assert!(matches!(chan.send(10 + k as u32), keen_retry::RetryResult::Ok { .. })) }
    let newcomer: Arc<Mutex<Option<S<C>>>> = Arc::new(Mutex::new(None));
    let mut bodies: Vec<mcx::Body> = Vec::new();
    let mut victim = Some(victim);
    bodies.push(Box::new(move || { let s = victim.take().unwrap(); mcx::rec("rm.call", 0, 0); drop(s); mcx::rec("rm.ret", 0, 0) }));
    {
        let (chan, newcomer, m) = (chan.clone(), newcomer.clone(), spec.m);
        bodies.push(Box::new(move || {
            // wait for the vacancy (creating a listener beyond MAX_STREAMS is not legal)
            while chan.running_streams_count() as usize >= m { mcx::yield_now() }
            mcx::rec("add.call", 0, 0);
            let (mut s, id) = chan.create_stream_for_new_events();
            mcx::rec("add.ret", id as i64, 0);
            let waker = noop_waker();
            let _ = poll_logged(&mut s, &waker, 9);
            mcx::rec("s.call", 50, 0);
            let ok = matches!(chan.send(50), keen_retry::RetryResult::Ok { .. });
            mcx::rec("s.ret", 50, ok as i64);
            let _ = poll_logged(&mut s, &waker, 9);
            *newcomer.lock().unwrap() = Some(s);
        }));
    }
    let sp = spec.clone();
    crate::mcx::Instance { bodies, check: Box::new(move |out| {
        let mut v = Vec::new();
        for (t, p) in out.panics.iter().enumerate() { if let Some(p) = p { v.push(("panic".to_string(), format!("thread {t}: {p}"))) } }
        if out.terminal != mcx::Terminal::Done { v.push(("no-termination".into(), format!("execution ended {:?}", out.terminal))); return v }
        let ctx = || mcx::fmt_log(&out.log);
        let waker = noop_waker();
        let mut cx = Context::from_waker(&waker);
        let mut got: Vec<i64> = out.log.iter().filter(|r| r.op == "got" && r.b == 9).map(|r| r.a).collect();
        let mut nc = newcomer.lock().unwrap().take();
        if let Some(s) = nc.as_mut() { for _ in 0..(B + 2) { match Pin::new(&mut *s).poll_next(&mut cx) { Poll::Ready(Some(item)) => { got.push(item.val() as i64); drop(item) }, _ => break } } }
        let accepted = out.log.iter().any(|r| r.op == "s.ret" && r.b == 1);
        if !accepted { v.push(("rejected".into(), format!("the send of event 50 was rejected on a channel holding {} events: {}", sp.leftovers, ctx()))) }
        if got.iter().any(|x| *x != 50) { v.push(("stale-event".into(), format!("the new listener yielded {:?}: events sent before it was created (left behind by the listener whose id it was given): {}", got, ctx()))) }
        else if accepted && got != vec![50] { v.push((if got.is_empty() { "missed-event" } else { "duplicate-event" }.into(), format!("event 50 was sent during the new listener's life, it yielded {:?}: {}", got, ctx()))) }
        // the listeners that exist throughout: the leftovers, then 50
        let want: Vec<i64> = (0..sp.leftovers).map(|k| 10 + k as i64).chain(if accepted { Some(50) } else { None }).collect();
        for (l, s) in stable.lock().unwrap().iter_mut().enumerate() {
            let mut seq = Vec::new();
            for _ in 0..(B + 2) { match Pin::new(&mut *s).poll_next(&mut cx) { Poll::Ready(Some(item)) => { seq.push(item.val() as i64); drop(item) }, _ => break } }
            if seq != want { v.push(("bystander-disturbed".into(), format!("listener {l} exists throughout; accepted {:?}, it yielded {:?}: {}", want, seq, ctx()))) }
        }
        let live = sp.m - 1 + nc.is_some() as usize;
        if chan.running_streams_count() as usize != live { v.push(("stream-accounting".into(), format!("{live} listeners alive, running_streams_count() = {}: {}", chan.running_streams_count(), ctx()))) }
        drop(nc);
        stable.lock().unwrap().clear();
        v
    }) }
}

pub fn scenarios(tier: Tier) -> Vec<crate::registry::ScenarioDef> {
    let mut defs = Vec::new();
    for kind in MultiKind::NON_LOG {
        for m in [1usize, 2] {
            for (idx, leftovers) in [1usize, 2].into_iter().enumerate() {
                let spec = RecycleSpec { kind, m, leftovers };
                let bound = match tier { Tier::Quick => 3, Tier::Thorough => 4 };
                defs.push(crate::registry::ScenarioDef { prop: "C10", family: format!("multi-{}/recycle/M{m}", kind.name()), rung: format!("E{leftovers}"), rung_idx: idx, max_bound: bound,
                    make: Arc::new(move || { let sp = spec.clone(); crate::dispatch_multi!(sp.kind, 4, sp.m, make_recycle(sp)) }) });
            }
        }
    }
    defs
}
