//! C15 -- behaviour is independent of how many events flowed before (E2, differential over sequence origins)
//!
//! Every operation history up to a depth bound (enumerated through the reference model's `enabled()` sets, so only legal calls are
//! made) is executed on a fresh real object whose free-running sequence counters start at 0, and again from every origin in a window
//! around the 32-bit boundary; the observable traces (accept / reject answers, delivered values, reported lengths, panics) must be
//! identical. The same enumeration runs in two builds of this harness: with and without arithmetic overflow checks.

use crate::chanseq::{self, Alphabet};
use crate::common::*;
use crate::master::{Report, Viol};
use crate::registry::Tier;
use crate::seqx::{Bad, Sys};
use serde_json::{json, Value};
use std::panic::{catch_unwind, AssertUnwindSafe};
use std::sync::{Arc, Mutex};
use std::time::{Duration, Instant};

pub struct Subject {
    pub name: String,
    /// ring / pool size: decides the window of origins
    pub n: usize,
    pub depth: usize,
    pub build: Arc<dyn Fn(u32) -> Box<dyn Sys> + Send + Sync>,
}

/// which of the two builds this binary is (decided by trying: `cfg(overflow_checks)` is not stable)
pub fn profile() -> &'static str {
    static P: std::sync::OnceLock<&'static str> = std::sync::OnceLock::new();
    P.get_or_init(|| {
        let r = catch_unwind(|| { let x = std::hint::black_box(u32::MAX); std::hint::black_box(x + 1) });
        if r.is_err() { "overflow-checks" } else { "wrapping" }
    })
}

pub fn origins(n: usize) -> Vec<u32> {
    let w = 2 * n as i64 + 2;
    (-w..=w).filter(|k| *k != 0).map(|k| k.rem_euclid(1i64 << 32) as u32).collect()
}

pub fn subjects(tier: Tier) -> Vec<Subject> {
    use crate::c01::Ring;
    let mut v = Vec::new();
    let d = |quick: usize, thorough: usize| match tier { Tier::Quick => quick, Tier::Thorough => thorough };
    for n in [2usize, 4] {
        for ring in [Ring::AtomicMove, Ring::FullSyncMove, Ring::AtomicZeroCopy, Ring::FullSyncZeroCopy] {
            v.push(Subject { name: format!("ring-{}/N{n}", ring.name()), n, depth: if n == 2 { d(10, 13) } else { d(10, 14) }, build: Arc::new(move |o| chanseq::ring_sys(ring, n, o)) });
        }
        // the same movable rings with elements that have a destructor: the teardown must destroy exactly the leftovers
        for atomic in [true, false] {
            v.push(Subject { name: format!("dropring-{}/N{n}", if atomic { "AtomicMove" } else { "FullSyncMove" }), n, depth: if n == 2 { d(7, 9) } else { d(8, 10) }, build: Arc::new(move |o| chanseq::drop_ring_sys(atomic, n, o)) });
        }
        for atomic in [true, false] {
            v.push(Subject { name: format!("alloc-{}/P{n}", if atomic { "AllocatorAtomicArray" } else { "AllocatorFullSyncArray" }), n, depth: if n == 2 { d(8, 11) } else { d(7, 9) }, build: Arc::new(move |o| chanseq::alloc_sys(atomic, n, o)) });
        }
        for kind in [UniKind::MA, UniKind::MF, UniKind::ZA, UniKind::ZF] {
            let al = Alphabet { send_with_async: kind == UniKind::MA, ..Alphabet::ALL };
            v.push(Subject { name: format!("uni-{}/B{n}", kind.name()), n, depth: if n == 2 { d(7, 9) } else { d(6, 8) }, build: Arc::new(move |o| chanseq::uni_sys(kind, n, al, o)) });
        }
        for kind in [MultiKind::OA, MultiKind::OF] {
            let al = Alphabet { send_with: false, send_with_async: false, ..Alphabet::ALL };
            v.push(Subject { name: format!("multi-{}/B{n}", kind.name()), n, depth: if n == 2 { d(7, 9) } else { d(6, 8) }, build: Arc::new(move |o| chanseq::ogre_sys(kind, n, al, o)) });
        }
    }
    v
}

/// one history on one fresh object: the trace, whether it ended in a disagreement with the model / a panic, and how many operations
/// are enabled afterwards
pub struct Run { pub names: Vec<String>, pub obs: Vec<String>, pub failed: Option<(usize, Bad)>, pub enabled_after: usize }

pub fn run_hist(subj: &Subject, origin: u32, hist: &[usize]) -> Run {
    let mut names = Vec::new();
    let mut obs = Vec::new();
    let mut failed = None;
    let mut enabled_after = 0;
    let mut phase = "construction";
    let r = catch_unwind(AssertUnwindSafe(|| {
        let mut sys = (subj.build)(origin);
        phase = "an operation";
        for (i, &c) in hist.iter().enumerate() {
            let en = sys.enabled();
            if c >= en.len() { failed = Some((i, ("engine".to_string(), format!("choice {c} of {}", en.len())))); return }
            names.push(en[c].clone());
            match catch_unwind(AssertUnwindSafe(|| sys.apply(c))) {
                Ok(Ok(o)) => obs.push(o),
                Ok(Err(bad)) => { failed = Some((i, bad)); return }
                Err(p) => { failed = Some((i, ("panic".to_string(), panic_msg(&p)))); std::mem::forget(sys); return }
            }
        }
        enabled_after = sys.enabled().len();
        phase = "teardown";
        // teardown with whatever is left over is part of the history
        drop(sys);
    }));
    if let Err(p) = r { if failed.is_none() { failed = Some((if phase == "construction" { 0 } else { hist.len() }, ("panic".to_string(), format!("during {phase}: {}", panic_msg(&p))))) } }
    Run { names, obs, failed, enabled_after }
}

fn panic_msg(p: &Box<dyn std::any::Any + Send>) -> String {
    p.downcast_ref::<&str>().map(|s| s.to_string()).or_else(|| p.downcast_ref::<String>().cloned()).unwrap_or_else(|| "<panic>".into())
}

#[derive(Default, Clone)]
pub struct Stats {
    pub histories: u64,
    pub executions: u64,
    pub operations: u64,
    pub nodes: u64,
    pub fresh_disagreements: u64,
    pub capped: bool,
    pub distinct_traces: std::collections::HashSet<u64>,
    pub violations: Vec<(String, String, Vec<usize>, u32)>,   // kind, detail, history, origin
    pub sample: Option<String>,
}

fn hash_str(s: &[String]) -> u64 { use std::hash::{Hash, Hasher}; let mut h = std::collections::hash_map::DefaultHasher::new(); s.hash(&mut h); h.finish() }

/// compares one complete history at every origin with the fresh run
fn compare_leaf(subj: &Subject, hist: &[usize], fresh: &Run, st: &mut Stats) {
    st.histories += 1;
    if st.distinct_traces.len() < 50_000 { st.distinct_traces.insert(hash_str(&fresh.obs)); }
    if st.sample.is_none() && hist.len() >= 4 && fresh.obs.iter().any(|o| o.contains("full")) { st.sample = Some(format!("{} :: {} => {}", subj.name, fresh.names.join(", "), fresh.obs.join(" ; "))) }
    for origin in origins(subj.n) {
        let r = run_hist(subj, origin, hist);
        st.executions += 1;
        st.operations += r.obs.len() as u64;
        let same = r.obs == fresh.obs && r.failed.as_ref().map(|f| (f.0, &f.1 .0)) == fresh.failed.as_ref().map(|f| (f.0, &f.1 .0));
        if same { continue }
        let step = r.obs.iter().zip(fresh.obs.iter()).position(|(a, b)| a != b).unwrap_or(r.obs.len().min(fresh.obs.len()));
        let (kind, what) = match &r.failed {
            Some((i, (k, d))) if *i == step && k == "panic" => ("panic-after-wrap".to_string(), format!("panics ({d})")),
            Some((i, (k, d))) if *i == step => ("differs-from-fresh".to_string(), format!("answers wrongly [{k}: {d}]")),
            _ => ("differs-from-fresh".to_string(), format!("answers `{}`", r.obs.get(step).cloned().unwrap_or_default())),
        };
        let detail = format!("[{} build] from sequence origin {origin:#x} step {step} (`{}`) {what}; a fresh object answers `{}` -- history: {}",
                             profile(), fresh.names.get(step).cloned().unwrap_or_default(), fresh.obs.get(step).cloned().unwrap_or_else(|| "<ok>".into()), fresh.names.join(", "));
        // report the shortest prefix that shows it (the trace of a history contains the traces of its prefixes)
        let short: Vec<usize> = hist[..(step + 1).min(hist.len())].to_vec();
        let names_short = fresh.names[..(step + 1).min(fresh.names.len())].join(", ");
        let detail = detail.replace(&format!("history: {}", fresh.names.join(", ")), &format!("history: {names_short}"));
        keep_shortest(&mut st.violations, (kind, detail, short, origin));
    }
}

/// at most two per kind, the shortest histories win
fn keep_shortest(vs: &mut Vec<(String, String, Vec<usize>, u32)>, v: (String, String, Vec<usize>, u32)) {
    if vs.iter().any(|x| x.0 == v.0 && x.2 == v.2) { return }
    let same: Vec<usize> = (0..vs.len()).filter(|&i| vs[i].0 == v.0).collect();
    if same.len() < 2 { vs.push(v); return }
    let worst = *same.iter().max_by_key(|&&i| vs[i].2.len()).unwrap();
    if vs[worst].2.len() > v.2.len() { vs[worst] = v }
}

fn dfs(subj: &Subject, hist: &mut Vec<usize>, st: &mut Stats, deadline: Instant) {
    if st.capped { return }
    if st.nodes % 256 == 0 && Instant::now() > deadline { st.capped = true; return }
    st.nodes += 1;
    let fresh = run_hist(subj, 0, hist);
    st.executions += 1;
    st.operations += fresh.obs.len() as u64;
    if fresh.failed.is_some() {
        // the fresh object itself disagrees with the reference model: not this property's business (other checks own it), but
        // later origins must misbehave in the same way -- compare, then stop extending this branch
        st.fresh_disagreements += 1;
        compare_leaf(subj, hist, &fresh, st);
        return;
    }
    if hist.len() >= subj.depth || fresh.enabled_after == 0 { compare_leaf(subj, hist, &fresh, st); return }
    for c in 0..fresh.enabled_after { hist.push(c); dfs(subj, hist, st, deadline); hist.pop(); }
}

/// explores every subject in this build profile; tasks = (subject, first two choices) on a thread pool
pub fn explore_all(tier: Tier, cap: Duration) -> Vec<(String, usize, Stats)> {
    let subs: Vec<Arc<Subject>> = subjects(tier).into_iter().map(Arc::new).collect();
    let deadline = Instant::now() + cap;
    let mut tasks: Vec<(usize, Vec<usize>)> = Vec::new();
    for (i, s) in subs.iter().enumerate() {
        let r0 = run_hist(s, 0, &[]);
        for a in 0..r0.enabled_after {
            let r1 = run_hist(s, 0, &[a]);
            if r1.failed.is_some() || r1.enabled_after == 0 || s.depth < 2 { tasks.push((i, vec![a])); continue }
            for b in 0..r1.enabled_after { tasks.push((i, vec![a, b])) }
        }
    }
    let queue = Arc::new(Mutex::new(tasks.into_iter().collect::<std::collections::VecDeque<_>>()));
    let results: Arc<Mutex<Vec<(usize, Stats)>>> = Arc::new(Mutex::new(Vec::new()));
    let nthreads = std::thread::available_parallelism().map(|n| n.get()).unwrap_or(4).min(16);
    let mut handles = Vec::new();
    for _ in 0..nthreads {
        let (queue, results, subs) = (queue.clone(), results.clone(), subs.clone());
        handles.push(std::thread::Builder::new().stack_size(8 << 20).spawn(move || loop {
            let Some((i, prefix)) = queue.lock().unwrap().pop_front() else { break };
            let mut st = Stats::default();
            let mut hist = prefix;
            dfs(&subs[i], &mut hist, &mut st, deadline);
            results.lock().unwrap().push((i, st));
        }).unwrap());
    }
    for h in handles { let _ = h.join(); }
    let results = std::mem::take(&mut *results.lock().unwrap());
    let mut out: Vec<(String, usize, Stats)> = subs.iter().map(|s| (s.name.clone(), s.depth, Stats::default())).collect();
    for (i, st) in results {
        let o = &mut out[i].2;
        o.histories += st.histories; o.executions += st.executions; o.operations += st.operations; o.nodes += st.nodes;
        o.fresh_disagreements += st.fresh_disagreements; o.capped |= st.capped;
        o.distinct_traces.extend(st.distinct_traces);
        for v in st.violations { keep_shortest(&mut o.violations, v) }
        if o.sample.is_none() { o.sample = st.sample }
    }
    for o in out.iter_mut() { o.2.violations.sort_by_key(|v| v.2.len()) }
    // prefixes of depth 0 and 1 are covered by the leaves below them (a trace contains the traces of its prefixes)
    out
}

fn stats_json(name: &str, depth: usize, st: &Stats) -> Value {
    json!({"subject": name, "depth": depth, "histories": st.histories, "executions": st.executions, "operations": st.operations, "nodes": st.nodes,
           "fresh_disagreements": st.fresh_disagreements, "capped": st.capped, "distinct_traces": st.distinct_traces.len(), "sample": st.sample,
           "violations": st.violations.iter().map(|v| json!({"kind": v.0, "detail": v.1, "choices": v.2, "origin": v.3})).collect::<Vec<_>>()})
}

/// `vh c15sub <tier>`: the same exploration in this binary's build profile, one JSON line on stdout
pub fn sub_main(tier: Tier) -> i32 {
    crate::master::quiet_panics();
    let cap = Duration::from_secs(std::env::var("VH_C15_CAP_S").ok().and_then(|s| s.parse().ok()).unwrap_or(match tier { Tier::Quick => 40, Tier::Thorough => 1200 }));
    let res = explore_all(tier, cap);
    let v: Vec<Value> = res.iter().map(|(n, d, s)| stats_json(n, *d, s)).collect();
    println!("{}", json!({"profile": profile(), "subjects": v}));
    0
}

/// master side: explores in this profile, runs the other profile's binary, folds both into the report
pub fn run(tier: Tier, rep: &mut Report) {
    crate::master::quiet_panics();
    let cap = Duration::from_secs(std::env::var("VH_C15_CAP_S").ok().and_then(|s| s.parse().ok()).unwrap_or(match tier { Tier::Quick => 40, Tier::Thorough => 1200 }));
    let other = std::env::var("VH_OVF_BIN").unwrap_or_else(|_| format!("{}/target/ovf/vh", crate::master::VERIF_DIR));
    // both profiles at once would oversubscribe the cores: run one after the other
    let mine = explore_all(tier, cap);
    let mut profiles: Vec<Value> = vec![json!({"profile": profile(), "subjects": mine.iter().map(|(n, d, s)| stats_json(n, *d, s)).collect::<Vec<_>>()})];
    match std::process::Command::new(&other).arg("c15sub").arg(tier.name()).output() {
        Ok(o) if o.status.success() => {
            let s = String::from_utf8_lossy(&o.stdout);
            match s.lines().rev().find(|l| l.starts_with('{')).and_then(|l| serde_json::from_str::<Value>(l).ok()) {
                Some(v) => {
                    if v["profile"].as_str() == Some(profile()) { rep.engine_errors.push(format!("{other} was built with the same overflow-check setting as this binary")) }
                    profiles.push(v)
                }
                None => rep.engine_errors.push(format!("unparsable answer from {other}")),
            }
        }
        Ok(o) => rep.engine_errors.push(format!("{other} c15sub exited with {}: {}", o.status, String::from_utf8_lossy(&o.stderr).lines().last().unwrap_or(""))),
        Err(e) => rep.engine_errors.push(format!("cannot run {other}: {e}")),
    }
    let mut per = Vec::new();
    let mut distinct = 0u64;
    for p in &profiles {
        let pname = p["profile"].as_str().unwrap_or("?").to_string();
        for s in p["subjects"].as_array().cloned().unwrap_or_default() {
            rep.states += s["nodes"].as_u64().unwrap_or(0) + s["histories"].as_u64().unwrap_or(0);
            rep.transitions += s["operations"].as_u64().unwrap_or(0);
            rep.traces += s["executions"].as_u64().unwrap_or(0);
            distinct += s["distinct_traces"].as_u64().unwrap_or(0);
            if s["capped"].as_bool().unwrap_or(false) { rep.exhaustive = false }
            if rep.samples.len() < 6 { if let Some(x) = s["sample"].as_str() { rep.samples.push(json!({"profile": pname, "history => trace (identical from every origin)": x})) } }
            let name = s["subject"].as_str().unwrap_or("?").to_string();
            for v in s["violations"].as_array().cloned().unwrap_or_default() {
                let choices = v["choices"].clone();
                rep.violations.push(Viol { family: name.clone(), rung: format!("D{}", choices.as_array().map(|a| a.len()).unwrap_or(0)), kind: v["kind"].as_str().unwrap_or("?").into(),
                    detail: v["detail"].as_str().unwrap_or("").into(),
                    replay: json!({"engine": "c15", "tier": tier.name(), "subject": name, "choices": choices, "origin": v["origin"], "profile": pname}) });
            }
            per.push(json!({"profile": pname, "subject": name, "depth": s["depth"], "histories": s["histories"], "executions": s["executions"], "fresh_disagreements": s["fresh_disagreements"], "capped": s["capped"]}));
        }
    }
    rep.extra.insert("engine".into(), json!("E2 differential: exhaustive enumeration of operation histories (legal calls per the reference model) of the real objects, each executed from origin 0 and from every origin in [2^32-2N-2, 2^32+2N+2]; traces compared"));
    rep.extra.insert("profiles".into(), json!(profiles.iter().map(|p| p["profile"].clone()).collect::<Vec<_>>()));
    rep.extra.insert("per_subject".into(), Value::Array(per));
    rep.extra.insert("distinct_traces".into(), json!(distinct));
    rep.extra.insert("origins_per_history".into(), json!("4N+4 (N = ring / pool size), plus origin 0 as the reference"));
    if distinct <= 1 { rep.engine_errors.push("vacuity alarm: every history produced the same trace".into()) }
    rep.assumptions = vec![
        "the sequence origin hook (feature `verif`) puts every free-running counter of a freshly built ring buffer at the origin, which is the state the counters have after that many events; no other state accumulates with the number of events transported".into(),
        "sequential histories; payload u32; trusted: rustc, std, crossbeam-channel, the reference models".into(),
    ];
}

pub fn replay(v: &Value, path: &str) -> i32 {
    crate::master::quiet_panics();
    let want = v["profile"].as_str().unwrap_or(profile());
    if want != profile() {
        let other = std::env::var("VH_OVF_BIN").unwrap_or_else(|_| format!("{}/target/ovf/vh", crate::master::VERIF_DIR));
        // recorded in the other build: let that binary judge it
        return match std::process::Command::new(&other).arg("replay").arg(path).status() { Ok(st) => st.code().unwrap_or(2), Err(e) => { eprintln!("cannot run {other}: {e}"); 2 } };
    }
    let tier = Tier::parse(v["tier"].as_str().unwrap_or("thorough")).unwrap_or(Tier::Thorough);
    let name = v["subject"].as_str().unwrap_or("");
    let Some(subj) = subjects(tier).into_iter().find(|s| s.name == name) else { eprintln!("unknown subject {name}"); return 2 };
    let choices: Vec<usize> = v["choices"].as_array().map(|a| a.iter().map(|c| c.as_u64().unwrap_or(0) as usize).collect()).unwrap_or_default();
    let origin = v["origin"].as_u64().unwrap_or(0) as u32;
    let fresh = run_hist(&subj, 0, &choices);
    let r = run_hist(&subj, origin, &choices);
    println!("subject: {name}   build: {}   origin: {origin:#x}", profile());
    for i in 0..fresh.names.len().max(r.names.len()) {
        println!("  {:24} fresh: {:32} origin: {}", fresh.names.get(i).cloned().unwrap_or_default(), fresh.obs.get(i).cloned().unwrap_or_else(|| format!("{:?}", fresh.failed)), r.obs.get(i).cloned().unwrap_or_else(|| format!("{:?}", r.failed)));
    }
    let same = r.obs == fresh.obs && r.failed.as_ref().map(|f| (f.0, &f.1 .0)) == fresh.failed.as_ref().map(|f| (f.0, &f.1 .0));
    if same { println!("no violation on this history"); 0 } else { println!("VIOLATION property=C15 replay=<this file> kind=differs-from-fresh"); 1 }
}
