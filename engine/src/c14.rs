//! C14 -- OgreArc / OgreUnique handles act as shared / unique owners of one pooled value (E1 part)

use crate::mcx::{self, Instance};
use crate::registry::{ScenarioDef, Tier};
use crate::tracked::{self, Tracked};
use reactive_mutiny::prelude::advanced::*;
use std::sync::{Arc, Mutex};

#[derive(Debug, Clone, Copy, PartialEq, Eq)]
pub enum Ctor { Clones, CloneEach, IncRaw, FromUnique }
impl Ctor { fn name(self) -> &'static str { match self { Ctor::Clones => "new_with_clones", Ctor::CloneEach => "new_with+clone", Ctor::IncRaw => "increment+raw_copy", Ctor::FromUnique => "unique.into_ogre_arc+clone" } } }

#[derive(Debug, Clone)]
pub struct Spec {
    pub atomic: bool,
    pub ctor: Ctor,
    /// per thread: 'c' clone the newest handle it owns, 'x' drop the oldest handle it owns, 'r' dereference the newest and compare
    pub scripts: Vec<&'static str>,
    /// handles kept by the harness until the verdict
    pub kept: usize,
    /// the harness holds a second value for the whole run, so that the pool is exhausted while the first one is alive
    pub fill: bool,
}

const POOL: usize = 2;
const ID: u32 = 77;
const FILL_ID: u32 = 55;

struct Shared<T>(T);
unsafe impl<T> Sync for Shared<T> {}
unsafe impl<T> Send for Shared<T> {}

fn handles<A: BoundedOgreAllocator<Tracked> + Send + Sync + 'static>(alloc: &A, ctor: Ctor, n: usize) -> Vec<OgreArc<Tracked, A>> {
    match ctor {
        Ctor::Clones => {
            let set = |slot: &mut Tracked| unsafe { std::ptr::write(slot, Tracked::new(ID)) };
            match n { 1 => OgreArc::new_with_clones::<1, _>(set, alloc).unwrap().into_iter().collect(), 2 => OgreArc::new_with_clones::<2, _>(set, alloc).unwrap().into_iter().collect(),
                      3 => OgreArc::new_with_clones::<3, _>(set, alloc).unwrap().into_iter().collect(), 4 => OgreArc::new_with_clones::<4, _>(set, alloc).unwrap().into_iter().collect(),
                      5 => OgreArc::new_with_clones::<5, _>(set, alloc).unwrap().into_iter().collect(), _ => panic!("n") }
        }
        Ctor::CloneEach => {
            let first = OgreArc::new_with(|slot: &mut Tracked| unsafe { std::ptr::write(slot, Tracked::new(ID)) }, alloc).unwrap();
            let mut v: Vec<_> = (1..n).map(|_| first.clone()).collect(); v.push(first); v
        }
        Ctor::IncRaw => {
            let (first, slot) = OgreArc::new(alloc).unwrap();
            unsafe { std::ptr::write(slot, Tracked::new(ID)) };
            unsafe { first.increment_references(n as u32 - 1) };
            let mut v: Vec<_> = (1..n).map(|_| unsafe { first.raw_copy() }).collect(); v.push(first); v
        }
        Ctor::FromUnique => {
            let u = OgreUnique::new(|slot: &mut Tracked| unsafe { std::ptr::write(slot, Tracked::new(ID)) }, alloc).unwrap();
            if u.read() != Ok(ID) { panic!("unique handle does not read its value") }
            let first = u.into_ogre_arc();
            let mut v: Vec<_> = (1..n).map(|_| first.clone()).collect(); v.push(first); v
        }
    }
}

fn make<A: BoundedOgreAllocator<Tracked> + Send + Sync + 'static>(spec: Spec) -> Instance {
    tracked::reset();
    let alloc = Arc::new(Shared(A::new()));
    let n = spec.scripts.len() + spec.kept;
    let filler = if spec.fill { Some(OgreArc::new_with(|slot: &mut Tracked| unsafe { std::ptr::write(slot, Tracked::new(FILL_ID)) }, &alloc.0).unwrap()) } else { None };
    let filler = Mutex::new(filler);
    let mut hs = handles(&alloc.0, spec.ctor, n);
    let kept: Arc<Mutex<Vec<OgreArc<Tracked, A>>>> = Arc::new(Mutex::new((0..spec.kept).map(|_| hs.pop().unwrap()).collect()));
    let mut bodies: Vec<mcx::Body> = Vec::new();
    for (t, script) in spec.scripts.iter().enumerate() {
        let mut mine = vec![(hs.pop().unwrap(), ID)];
        let script = *script;
        let alloc = alloc.clone();
        bodies.push(Box::new(move || {
            for op in script.chars() {
                match op {
                    'c' => { if let Some((h, id)) = mine.last() { let c = (h.clone(), *id); mcx::rec("clone", 0, 0); mine.push(c) } }
                    'x' => { if !mine.is_empty() { let (h, id) = mine.remove(0); mcx::rec("drop.call", id as i64, 0); drop(h); mcx::rec("drop.ret", id as i64, 0) } }
                    'r' => { if let Some((h, want)) = mine.last() {
                        mcx::step();
                        let early = tracked::drops_of(*want);
                        match h.read() { Ok(id) if id == *want && early == 0 => mcx::rec("read", 1, 0), Ok(id) => mcx::rec("read", 0, (id as i64) * 10 + early as i64), Err(_) => mcx::rec("read", -1, early as i64) }
                    } }
                    // a new value of its own (the pool may be exhausted: then nothing happens)
                    'n' => {
                        let id = 100 + t as u32;
                        mcx::rec("new.call", id as i64, 0);
                        match OgreArc::new_with(|slot: &mut Tracked| unsafe { std::ptr::write(slot, Tracked::new(id)) }, &alloc.0) {
                            Some(h) => { mcx::rec("new.ret", id as i64, 1); mine.push((h, id)) }
                            None => mcx::rec("new.ret", id as i64, 0),
                        }
                    }
                    _ => unreachable!(),
                }
            }
            // whatever is left is dropped when the thread ends
            // what is still held is read once more, then dropped when the thread ends
            for (h, want) in &mine {
                mcx::step();
                let early = tracked::drops_of(*want);
                match h.read() { Ok(id) if id == *want && early == 0 => {}, Ok(id) => mcx::rec("read", 0, (id as i64) * 10 + early as i64), Err(_) => mcx::rec("read", -1, early as i64) }
            }
            let left = mine.len();
            drop(mine);
            mcx::rec("end", left as i64, 0);
        }));
    }
    let sp = spec.clone();
    // fields drop in declaration order: the handles must go before the allocator they release into (the verdict closure may be
    // dropped without ever running)
    struct Held<H, F, A> { kept: H, filler: F, alloc: A }
    let held = Held { kept, filler, alloc };
    Instance { bodies, check: Box::new(move |out| {
        let Held { kept, filler, alloc } = &held;
        let mut v = Vec::new();
        for (t, p) in out.panics.iter().enumerate() { if let Some(p) = p { v.push(("panic".to_string(), format!("thread {t}: {p}"))) } }
        if out.terminal != mcx::Terminal::Done { v.push(("no-termination".into(), format!("execution ended {:?}", out.terminal))); let _ = tracked::take(); return v }
        for r in out.log.iter().filter(|r| r.op == "read" && r.a != 1) {
            v.push(("bad-deref".into(), format!("a live handle did not dereference to the value written at creation (code {}, detail {}): {}", r.a, r.b, mcx::fmt_log(&out.log))));
        }
        let mut kept = kept.lock().unwrap();
        let d = tracked::drops_of(ID);
        if sp.kept > 0 {
            if d != 0 { v.push(("destroyed-while-held".into(), format!("{} handle(s) are still alive but the value's destructor ran {d} time(s): {}", sp.kept, mcx::fmt_log(&out.log)))) }
            let rc = kept[0].references_count();
            if rc as usize != sp.kept { v.push(("reference-count".into(), format!("{} live handle(s), no clone or drop in progress, references_count() = {rc}: {}", sp.kept, mcx::fmt_log(&out.log)))) }
            if kept[0].read() != Ok(ID) { v.push(("bad-deref".into(), format!("the handle kept by the harness reads {:?}", kept[0].read()))) }
            // a second value fits while the first is alive, a third does not
            if v.is_empty() {
                let extra: Vec<_> = (0..POOL).filter_map(|_| alloc.0.alloc_ref().map(|x| x.1)).collect();
                let alive = 1 + sp.fill as usize;
                if extra.len() != POOL - alive { v.push(("slot-accounting".into(), format!("with {alive} value(s) alive {} further slots could be allocated on a pool of {POOL}", extra.len()))) }
                for id in extra { unsafe { std::ptr::write(alloc.0.ref_from_id(id), Tracked::new(1000 + id)); } alloc.0.dealloc_id(id) }
            }
            kept.clear();
        }
        if let Some(f) = filler.lock().unwrap().take() {
            if f.read() != Ok(FILL_ID) || tracked::drops_of(FILL_ID) != 0 { v.push(("destroyed-while-held".into(), format!("the value held by the harness for the whole run reads {:?}, destructor runs {}: {}", f.read(), tracked::drops_of(FILL_ID), mcx::fmt_log(&out.log)))) }
            drop(f);
        }
        let mut ids = vec![ID];
        if sp.fill { ids.push(FILL_ID) }
        ids.extend(out.log.iter().filter(|r| r.op == "new.ret" && r.b == 1).map(|r| r.a as u32));
        for id in ids {
            let d = tracked::drops_of(id);
            if d != 1 { v.push((if d == 0 { "never-destroyed" } else { "destroyed-twice" }.into(), format!("every handle of value {id} is gone, its destructor ran {d} time(s): {}", mcx::fmt_log(&out.log)))) }
        }
        if v.is_empty() {
            let ids: Vec<_> = (0..POOL + 1).filter_map(|_| alloc.0.alloc_ref().map(|x| x.1)).collect();
            if ids.len() != POOL { v.push(("slot-not-returned".into(), format!("every handle is gone, yet {} of {POOL} slots can be allocated", ids.len()))) }
        }
        let table = tracked::take();
        for b in table.bad { v.push(("bad-destructor".into(), b)) }
        v
    }) }
}

fn dispatch(spec: Spec) -> Instance {
    if spec.atomic { make::<AllocatorAtomicArray<Tracked, POOL>>(spec) } else { make::<AllocatorFullSyncArray<Tracked, POOL>>(spec) }
}

pub fn scenarios(tier: Tier) -> Vec<ScenarioDef> {
    let mut defs = Vec::new();
    let mut scripts: Vec<(&str, Vec<&'static str>, usize, bool)> = vec![
        ("T2-a", vec!["x", "x"], 0, false), ("T2-b", vec!["cx", "rx"], 0, false), ("T2-c", vec!["rx", "cxx"], 0, false), ("T2-d", vec!["cx", "xr"], 1, false), ("T2-e", vec!["cxx", "rcx"], 2, false),
        // a slot being released races an allocation (pool exhausted by the value the harness holds)
        ("T2-f", vec!["x", "xnnr"], 0, true), ("T2-g", vec!["xn", "xnr"], 0, true),
        ("T3-a", vec!["x", "x", "x"], 0, false), ("T3-b", vec!["cx", "rx", "x"], 0, false), ("T3-c", vec!["cx", "x", "rx"], 1, false), ("T3-e", vec!["x", "x", "xnnr"], 0, true),
    ];
    if tier == Tier::Thorough { scripts.push(("T3-d", vec!["cxx", "rcx", "xr"], 0, false)); scripts.push(("T4-a", vec!["x", "cx", "rx", "x"], 0, false)); scripts.push(("T3-f", vec!["xn", "xnr", "xn"], 0, true)); }
    for atomic in [true, false] {
        for ctor in [Ctor::Clones, Ctor::CloneEach, Ctor::IncRaw, Ctor::FromUnique] {
            for (idx, (name, sc, kept, fill)) in scripts.iter().enumerate() {
                if tier == Tier::Quick && !atomic && sc.len() > 2 && ctor != Ctor::Clones { continue }
                let spec = Spec { atomic, ctor, scripts: sc.clone(), kept: *kept, fill: *fill };
                let threads = sc.len();
                // the bodies are a handful of steps long: these bounds are close to unbounded
                let bound = match tier { Tier::Quick => if threads <= 2 { 6 } else { 4 }, Tier::Thorough => if threads <= 2 { 12 } else if threads == 3 { 8 } else { 5 } };
                defs.push(ScenarioDef { prop: "C14", family: format!("{}/{}", if atomic { "AtomicArray" } else { "FullSyncArray" }, ctor.name()), rung: name.to_string(), rung_idx: idx, max_bound: bound,
                    make: Arc::new(move || dispatch(spec.clone())) });
            }
        }
    }
    defs
}
