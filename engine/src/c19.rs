//! C19 -- the incremental-average metric loses no update and exposes a consistent (count, average) pair (E1)

use crate::mcx::{self, Instance};
use crate::registry::{ScenarioDef, Tier};
use reactive_mutiny::verif::AtomicIncrementalAverage64;
use std::sync::Arc;

#[derive(Debug, Clone)]
pub struct Spec { pub recorders: usize, pub incs: usize, pub probes: usize, pub light: bool }

const VALUES: [f32; 6] = [1.0, 2.0, 4.0, -1.0, 8.0, 0.5];

fn make(spec: Spec) -> Instance {
    let m = Arc::new(AtomicIncrementalAverage64::new());
    let mut bodies: Vec<mcx::Body> = Vec::new();
    for t in 0..spec.recorders {
        let m = m.clone();
        let incs = spec.incs;
        bodies.push(Box::new(move || {
            for k in 0..incs {
                let idx = t * incs + k;
                mcx::rec("i.call", idx as i64, 0);
                m.inc(VALUES[idx % VALUES.len()]);
                mcx::rec("i.ret", idx as i64, 0);
            }
        }));
    }
    if spec.probes > 0 {
        let m = m.clone();
        let probes = spec.probes;
        bodies.push(Box::new(move || {
            for _ in 0..probes {
                mcx::rec("pr.call", 0, 0);
                let (c, a) = m.probe();
                mcx::rec("pr.ret", c as i64, a.to_bits() as i64);
            }
        }));
    }
    let total = spec.recorders * spec.incs;
    Instance { bodies, check: Box::new(move |out| {
        let mut v = Vec::new();
        for (t, p) in out.panics.iter().enumerate() { if let Some(p) = p { v.push(("panic".to_string(), format!("thread {t}: {p}"))) } }
        if out.terminal != mcx::Terminal::Done { v.push(("no-termination".into(), format!("execution ended {:?}", out.terminal))); return v }
        let close = |a: f32, b: f32| (a - b).abs() <= 1e-4 * 1f32.max(b.abs());
        let mean = |set: &[usize]| if set.is_empty() { 0.0 } else { set.iter().map(|&i| VALUES[i % VALUES.len()]).sum::<f32>() / set.len() as f32 };
        // final state
        let (c, a) = m.probe();
        if c as usize != total { v.push(("lost-update".into(), format!("{total} measurements recorded, final count {c}: {}", mcx::fmt_log(&out.log)))) }
        let all: Vec<usize> = (0..total).collect();
        if c as usize == total && !close(a, mean(&all)) { v.push(("wrong-average".into(), format!("final average {a}, arithmetic mean {}: {}", mean(&all), mcx::fmt_log(&out.log)))) }
        let (lc, la) = m.lightweight_probe();
        if (lc, la.to_bits()) != (c, a.to_bits()) { v.push(("probe-mismatch".into(), format!("at rest lightweight_probe() = ({lc},{la}) but probe() = ({c},{a})"))) }
        // every reading is explained by some set of records consistent with real time
        let call_of = |i: usize| out.log.iter().find(|r| r.op == "i.call" && r.a == i as i64).map(|r| r.stamp).unwrap_or(u32::MAX);
        let ret_of = |i: usize| out.log.iter().find(|r| r.op == "i.ret" && r.a == i as i64).map(|r| r.stamp).unwrap_or(u32::MAX);
        let mut pcall = 0u32;
        for r in &out.log {
            if r.op == "pr.call" { pcall = r.stamp }
            if r.op == "pr.ret" {
                let (cnt, avg) = (r.a as usize, f32::from_bits(r.b as u32));
                let must: Vec<usize> = (0..total).filter(|&i| ret_of(i) < pcall).collect();
                let may: Vec<usize> = (0..total).filter(|&i| call_of(i) < r.stamp).collect();
                let mut ok = false;
                for mask in 0u32..(1 << total) {
                    let set: Vec<usize> = (0..total).filter(|i| mask & (1 << i) != 0).collect();
                    if set.len() != cnt { continue }
                    if !must.iter().all(|i| set.contains(i)) || !set.iter().all(|i| may.contains(i)) { continue }
                    if close(avg, mean(&set)) { ok = true; break }
                }
                if !ok { v.push(("inconsistent-reading".into(), format!("probe() = ({cnt}, {avg}) over [{pcall},{}] is not the (count, mean) of any set of measurements recorded by then (must include {:?}, may include {:?}): {}", r.stamp, must, may, mcx::fmt_log(&out.log)))) }
            }
        }
        v
    }) }
}

pub fn scenarios(tier: Tier) -> Vec<ScenarioDef> {
    let mut defs = Vec::new();
    // (recorders, incs each, probes)
    let mut ladder = vec![(2usize, 1usize, 1usize), (2, 2, 2), (3, 1, 2)];
    ladder.push((2, 3, 2));
    if tier == Tier::Thorough { ladder.push((3, 2, 2)); }
    for (idx, &(r, i, p)) in ladder.iter().enumerate() {
        let spec = Spec { recorders: r, incs: i, probes: p, light: false };
        let threads = r + 1;
        let bound = match tier { Tier::Quick => if threads <= 3 { 5 } else { 4 }, Tier::Thorough => if r * i <= 2 { 12 } else if threads <= 3 { 8 } else { 5 } };
        defs.push(ScenarioDef { prop: "C19", family: "AtomicIncrementalAverage64".into(), rung: format!("R{r}-I{i}-P{p}"), rung_idx: idx, max_bound: bound,
            make: Arc::new(move || make(spec.clone())) });
    }
    defs
}
