//! E2 `seqx`: explicit-state breadth-first search over the *real* object (DESIGN.md §3.2).
//!
//! A state is the operation history that reaches it; `build()` creates a fresh real object (plus its reference model) and the
//! history is replayed through the public API. After every transition the real answer is compared with the model (inside `apply`).
//! States are deduplicated on `key()`: the object's internal bookkeeping (`VerifState`) plus the model state.

use crate::master::{Report, Viol};
use serde_json::{json, Value};
use std::collections::{HashSet, VecDeque};
use std::panic::{catch_unwind, AssertUnwindSafe};
use std::time::Instant;

pub type Bad = (String, String);

pub trait Sys {
    /// names of the operations enabled in the current state, simplest first (an index into this list is a choice)
    fn enabled(&self) -> Vec<String>;
    /// performs enabled()[choice] on the real object and on the model; `Ok(observation)` when they agree
    fn apply(&mut self, choice: usize) -> Result<String, Bad>;
    /// canonical state
    fn key(&self) -> Vec<u64>;
    /// optional check run on a state of its own copy (the object is thrown away afterwards), e.g. "drain, then exactly B sends fit"
    fn epilogue(&mut self) -> Result<(), Bad> { Ok(()) }
}

pub struct Config {
    pub name: String,
    pub max_depth: usize,
    pub build: Box<dyn Fn() -> Box<dyn Sys> + Send + Sync>,
}

#[derive(Default)]
pub struct SeqResult {
    pub states: u64,
    pub transitions: u64,
    pub replays: u64,
    pub depth: usize,
    pub fixpoint: bool,
    pub capped: bool,
    pub violations: Vec<(String, String, Vec<usize>, Vec<String>)>,   // kind, detail, choices, op names
    pub samples: Vec<String>,
    pub outcomes: HashSet<String>,
}

/// replays `hist`; Ok((sys, op names, observations)) or the violation met on the way (with the index of the failing step)
pub fn replay(cfg: &Config, hist: &[usize]) -> Result<(Box<dyn Sys>, Vec<String>, Vec<String>), (usize, Vec<String>, Bad)> {
    let mut sys = (cfg.build)();
    let mut names = Vec::new();
    let mut obs = Vec::new();
    for (i, &c) in hist.iter().enumerate() {
        let en = sys.enabled();
        if c >= en.len() { return Err((i, names, ("engine".into(), format!("replay divergence: choice {c} of {} at step {i}", en.len())))) }
        names.push(en[c].clone());
        match catch_unwind(AssertUnwindSafe(|| sys.apply(c))) {
            Ok(Ok(o)) => obs.push(o),
            Ok(Err(bad)) => return Err((i, names, bad)),
            Err(p) => {
                let msg = p.downcast_ref::<&str>().map(|s| s.to_string()).or_else(|| p.downcast_ref::<String>().cloned()).unwrap_or_else(|| "<panic>".into());
                // the object is in an unknown state: leak it rather than run its destructors
                std::mem::forget(sys);
                return Err((i, names, ("panic".into(), msg)));
            }
        }
    }
    Ok((sys, names, obs))
}

pub fn explore(cfg: &Config, deadline: Instant, max_states: usize) -> SeqResult {
    let mut res = SeqResult::default();
    let mut seen: HashSet<Vec<u64>> = HashSet::new();
    let mut frontier: VecDeque<Vec<usize>> = VecDeque::new();
    match replay(cfg, &[]) {
        Ok((sys, _, _)) => { seen.insert(sys.key()); frontier.push_back(Vec::new()); res.replays += 1 }
        Err((_, _, bad)) => { res.violations.push((bad.0, bad.1, vec![], vec![])); return res }
    }
    res.fixpoint = true;
    while let Some(hist) = frontier.pop_front() {
        if Instant::now() > deadline || seen.len() > max_states { res.capped = true; res.fixpoint = false; break }
        res.depth = res.depth.max(hist.len());
        let n = match replay(cfg, &hist) { Ok((sys, _, _)) => sys.enabled().len(), Err(_) => 0 };
        res.replays += 1;
        for c in 0..n {
            let mut h2 = hist.clone(); h2.push(c);
            res.replays += 1;
            res.transitions += 1;
            match replay(cfg, &h2) {
                Ok((mut sys, names, obs)) => {
                    let k = sys.key();
                    if res.outcomes.len() < 5000 { res.outcomes.insert(obs.last().cloned().unwrap_or_default()); }
                    if seen.insert(k) {
                        if res.samples.len() < 3 && h2.len() >= 3 { res.samples.push(format!("{} => {}", names.join(", "), obs.join(" | "))) }
                        // the epilogue consumes the object
                        match catch_unwind(AssertUnwindSafe(|| sys.epilogue())) {
                            Ok(Ok(())) => {}
                            Ok(Err(bad)) => { push_viol(&mut res, bad, &h2, &names); }
                            Err(p) => { let msg = p.downcast_ref::<&str>().map(|s| s.to_string()).or_else(|| p.downcast_ref::<String>().cloned()).unwrap_or_else(|| "<panic>".into()); std::mem::forget(sys); push_viol(&mut res, ("panic".into(), format!("in the epilogue: {msg}")), &h2, &names); continue }
                        }
                        if h2.len() < cfg.max_depth { frontier.push_back(h2) } else { res.fixpoint = false }
                    }
                }
                Err((_, names, bad)) => { push_viol(&mut res, bad, &h2, &names) }
            }
        }
    }
    res.states = seen.len() as u64;
    res
}

fn push_viol(res: &mut SeqResult, bad: Bad, hist: &[usize], names: &[String]) {
    // BFS order: the first one of a kind is a shortest one; keep at most 2 per kind
    if res.violations.iter().filter(|v| v.0 == bad.0).count() < 2 {
        res.violations.push((bad.0, bad.1, hist.to_vec(), names.to_vec()));
    }
}

/// runs every configuration (in parallel threads) and folds the results into a report
pub fn run_configs(prop: &str, tier: crate::registry::Tier, cfgs: Vec<Config>, wall_cap_s: u64, max_states: usize, rep: &mut Report) {
    let deadline = Instant::now() + std::time::Duration::from_secs(wall_cap_s);
    let cfgs: Vec<std::sync::Arc<Config>> = cfgs.into_iter().map(std::sync::Arc::new).collect();
    let queue = std::sync::Arc::new(std::sync::Mutex::new((0..cfgs.len()).collect::<VecDeque<usize>>()));
    let results = std::sync::Arc::new(std::sync::Mutex::new(Vec::new()));
    let nthreads = std::thread::available_parallelism().map(|n| n.get()).unwrap_or(4).min(16).min(cfgs.len().max(1));
    let mut handles = Vec::new();
    for _ in 0..nthreads {
        let (queue, results, cfgs) = (queue.clone(), results.clone(), cfgs.clone());
        handles.push(std::thread::Builder::new().stack_size(8 << 20).spawn(move || {
            loop {
                let Some(i) = queue.lock().unwrap().pop_front() else { break };
                let r = explore(&cfgs[i], deadline, max_states);
                results.lock().unwrap().push((i, r));
            }
        }).unwrap());
    }
    for h in handles { let _ = h.join(); }
    let mut results = std::mem::take(&mut *results.lock().unwrap());
    results.sort_by_key(|x| x.0);
    let mut per_cfg = Vec::new();
    let mut outcomes: HashSet<String> = HashSet::new();
    let mut all_fix = true;
    for (i, r) in results {
        let cfg = &cfgs[i];
        rep.states += r.states;
        rep.transitions += r.transitions;
        rep.traces += r.replays;
        if r.capped { rep.exhaustive = false }
        all_fix &= r.fixpoint;
        per_cfg.push(json!({"config": cfg.name, "states": r.states, "transitions": r.transitions, "max_depth_reached": r.depth, "fixpoint": r.fixpoint, "capped": r.capped}));
        for s in r.samples.iter().take(1) { if rep.samples.len() < 6 { rep.samples.push(json!({"config": cfg.name, "history => observations": s})) } }
        outcomes.extend(r.outcomes);
        for (kind, detail, choices, names) in r.violations {
            rep.violations.push(Viol { family: cfg.name.clone(), rung: format!("D{}", choices.len()), kind, detail: format!("{detail} -- history: {}", names.join(", ")),
                replay: json!({"engine": "seqx", "prop": prop, "tier": tier.name(), "config": cfg.name, "choices": choices, "operations": names}) });
        }
    }
    rep.extra.insert("seqx_configs".into(), Value::Array(per_cfg));
    rep.extra.insert("seqx_all_configs_reached_a_fixpoint".into(), json!(all_fix));
    rep.extra.insert("seqx_distinct_observations".into(), json!(outcomes.len()));
}
