//! E2 `seqx`: explicit-state breadth-first search over the *real* object (DESIGN.md §3.2).
//!
//! A state is the operation history that reaches it; `build()` creates a fresh real object (plus its reference model) and the
//! history is replayed through the public API. After every transition the real answer is compared with the model (inside `apply`).
//! States are deduplicated on `key()`: the object's internal bookkeeping (`VerifState`) plus the model state.

use std::collections::{HashSet, VecDeque};
use std::panic::{catch_unwind, AssertUnwindSafe};
use std::time::Instant;

pub type Bad = (String, String);

pub trait Sys {
    /// names of the operations enabled in the current state, simplest first (an index into this list is a choice)
    fn enabled(&self) -> Vec<String>;
    /// performs enabled()[choice] on the real object and on the model; `Ok(observation)` when they agree
    fn apply(&mut self, choice: usize) -> Result<String, Bad>;
    /// canonical state
    fn key(&self) -> Vec<u64>;
    /// optional check run on a state of its own copy (the object is thrown away afterwards), e.g. "drain, then exactly B sends fit"
    fn epilogue(&mut self) -> Result<(), Bad> { Ok(()) }
}

pub struct Config {
    pub name: String,
    pub max_depth: usize,
    pub build: Box<dyn Fn() -> Box<dyn Sys> + Send + Sync>,
}

#[derive(Default)]
pub struct SeqResult {
    pub states: u64,
    pub transitions: u64,
    pub replays: u64,
    pub depth: usize,
    pub fixpoint: bool,
    pub capped: bool,
    pub violations: Vec<(String, String, Vec<usize>, Vec<String>)>,   // kind, detail, choices, op names
    pub samples: Vec<String>,
    pub outcomes: HashSet<String>,
}

/// replays `hist`; Ok((sys, op names, observations)) or the violation met on the way (with the index of the failing step)
pub fn replay(cfg: &Config, hist: &[usize]) -> Result<(Box<dyn Sys>, Vec<String>, Vec<String>), (usize, Vec<String>, Bad)> {
    let mut sys = (cfg.build)();
    let mut names = Vec::new();
    let mut obs = Vec::new();
    for (i, &c) in hist.iter().enumerate() {
        let en = sys.enabled();
        if c >= en.len() { return Err((i, names, ("engine".into(), format!("replay divergence: choice {c} of {} at step {i}", en.len())))) }
        names.push(en[c].clone());
        match catch_unwind(AssertUnwindSafe(|| sys.apply(c))) {
            Ok(Ok(o)) => obs.push(o),
            Ok(Err(bad)) => return Err((i, names, bad)),
            Err(p) => {
                let msg = p.downcast_ref::<&str>().map(|s| s.to_string()).or_else(|| p.downcast_ref::<String>().cloned()).unwrap_or_else(|| "<panic>".into());
                // the object is in an unknown state: leak it rather than run its destructors
                std::mem::forget(sys);
                return Err((i, names, ("panic".into(), msg)));
            }
        }
    }
    Ok((sys, names, obs))
}

pub fn explore(cfg: &Config, deadline: Instant, max_states: usize) -> SeqResult { explore_with(cfg, deadline, max_states, |_| {}) }

/// `on_replay` is told every history just before it is executed (the sanitizer build records it, so that an abort can be attributed)
pub fn explore_with(cfg: &Config, deadline: Instant, max_states: usize, mut on_replay: impl FnMut(&[usize])) -> SeqResult {
    let mut res = SeqResult::default();
    let mut seen: HashSet<Vec<u64>> = HashSet::new();
    let mut frontier: VecDeque<Vec<usize>> = VecDeque::new();
    match replay(cfg, &[]) {
        Ok((sys, _, _)) => { seen.insert(sys.key()); frontier.push_back(Vec::new()); res.replays += 1 }
        Err((_, _, bad)) => { res.violations.push((bad.0, bad.1, vec![], vec![])); return res }
    }
    res.fixpoint = true;
    while let Some(hist) = frontier.pop_front() {
        if Instant::now() > deadline || seen.len() > max_states { res.capped = true; res.fixpoint = false; break }
        res.depth = res.depth.max(hist.len());
        let n = match replay(cfg, &hist) { Ok((sys, _, _)) => sys.enabled().len(), Err(_) => 0 };
        res.replays += 1;
        for c in 0..n {
            let mut h2 = hist.clone(); h2.push(c);
            res.replays += 1;
            res.transitions += 1;
            on_replay(&h2);
            match replay(cfg, &h2) {
                Ok((mut sys, names, obs)) => {
                    let k = sys.key();
                    if res.outcomes.len() < 5000 { res.outcomes.insert(obs.last().cloned().unwrap_or_default()); }
                    if seen.insert(k) {
                        if res.samples.len() < 3 && h2.len() >= 3 { res.samples.push(format!("{} => {}", names.join(", "), obs.join(" | "))) }
                        // the epilogue consumes the object
                        match catch_unwind(AssertUnwindSafe(|| sys.epilogue())) {
                            Ok(Ok(())) => {}
                            Ok(Err(bad)) => { push_viol(&mut res, bad, &h2, &names); }
                            Err(p) => { let msg = p.downcast_ref::<&str>().map(|s| s.to_string()).or_else(|| p.downcast_ref::<String>().cloned()).unwrap_or_else(|| "<panic>".into()); std::mem::forget(sys); push_viol(&mut res, ("panic".into(), format!("in the epilogue: {msg}")), &h2, &names); continue }
                        }
                        if h2.len() < cfg.max_depth { frontier.push_back(h2) } else { res.fixpoint = false }
                    }
                }
                Err((_, names, bad)) => { push_viol(&mut res, bad, &h2, &names) }
            }
        }
    }
    res.states = seen.len() as u64;
    res
}

fn push_viol(res: &mut SeqResult, bad: Bad, hist: &[usize], names: &[String]) {
    // BFS order: the first one of a kind is a shortest one; keep at most 2 per kind
    if res.violations.iter().filter(|v| v.0 == bad.0).count() < 2 {
        res.violations.push((bad.0, bad.1, hist.to_vec(), names.to_vec()));
    }
}

