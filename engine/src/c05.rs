//! C05 -- payloads are destroyed exactly once and their storage is never reused while held (E1 part; histories: c05core.rs)
//!
//! Producers send instrumented payloads (send moves a value in, send_with builds it in place with ptr::write); every listener runs
//! on its own thread, keeps the handles it receives while it goes on polling (so that the producers hit a full pool), re-reads
//! them, optionally clones one, and releases them -- either itself or by passing them to a releaser thread.

use crate::c05core::*;
use crate::mcx::{self, Instance};
use crate::registry::{ScenarioDef, Tier};
use futures::Stream;
use reactive_mutiny::prelude::advanced::*;
use std::pin::Pin;
use std::sync::{Arc, Mutex};
use std::task::{Context, Poll};

#[derive(Debug, Clone)]
pub struct Spec { pub kind: &'static str, pub listeners: usize, pub producers: usize, pub sends: usize, pub polls: usize, pub clone: bool, pub releaser: bool }

fn make<F: Fam>(spec: Spec) -> Instance {
    let chan = F::mk();
    let table: SharedTable = Arc::new(Mutex::new(Table::default()));
    let n_streams = if F::MULTI { spec.listeners } else { 1 };
    let streams: Vec<Arc<Mutex<Option<F::S>>>> = (0..n_streams).map(|_| Arc::new(Mutex::new(Some(F::open(&chan))))).collect();
    let outbox: Arc<Mutex<Vec<(Box<dyn Hd>, u32)>>> = Arc::new(Mutex::new(Vec::new()));
    let consumers_done = Arc::new(std::sync::atomic::AtomicUsize::new(0));
    let mut bodies: Vec<mcx::Body> = Vec::new();
    for p in 0..spec.producers {
        let (chan, table, sends) = (chan.clone(), table.clone(), spec.sends);
        // the crossbeam channel's setter-based sends wait (documented) once their initial fullness test has passed: plain sends only
        let plain_only = spec.kind == "uni-MC";
        bodies.push(Box::new(move || {
            for k in 0..sends {
                let id = (100 * (p + 1) + k) as u32;
                mcx::rec("s.call", id as i64, 0);
                let accepted = if k % 2 == 0 || plain_only {
                    match chan.send(Tr::new(id, &table)) {
                        keen_retry::RetryResult::Ok { .. } => true,
                        keen_retry::RetryResult::Transient { input, .. } | keen_retry::RetryResult::Fatal { input, .. } => { if input.read() != Ok(id) { mcx::rec("bad", id as i64, 1) } drop(input); false }
                    }
                } else {
                    let t = table.clone();
                    matches!(chan.send_with(move |slot| { mcx::step(); unsafe { std::ptr::write(slot, Tr::new(id, &t)) } }), keen_retry::RetryResult::Ok { .. })
                };
                mcx::rec("s.ret", id as i64, accepted as i64);
            }
        }));
    }
    for (l, slot) in streams.iter().enumerate() {
        let (slot, outbox, done) = (slot.clone(), outbox.clone(), consumers_done.clone());
        let (polls, do_clone, releaser) = (spec.polls, spec.clone && l == 0, spec.releaser);
        bodies.push(Box::new(move || {
            let mut stream = slot.lock().unwrap().take().unwrap();
            let waker = noop_waker();
            let mut held: Vec<(Box<dyn Hd>, u32)> = Vec::new();
            for _ in 0..polls {
                mcx::rec("p.call", l as i64, 0);
                let mut cx = Context::from_waker(&waker);
                match Pin::new(&mut stream).poll_next(&mut cx) {
                    Poll::Ready(Some(item)) => {
                        let id = item.read().unwrap_or(u32::MAX);
                        mcx::rec("got", id as i64, l as i64);
                        if F::POOLED && held.iter().any(|(h, hid)| *hid != id && h.addr() == item.addr()) { mcx::rec("bad", id as i64, 2) }
                        held.push((Box::new(item), id));
                    }
                    Poll::Ready(None) => break,
                    Poll::Pending => mcx::rec("pend", l as i64, 0),
                }
                // what is held keeps reading as the payload it was delivered as
                for (h, id) in &held { if h.read() != Ok(*id) { mcx::rec("bad", *id as i64, 3) } }
            }
            if do_clone { if let Some((h, id)) = held.first() { if let Some(c) = h.try_clone() { let id = *id; held.push((c, id)); mcx::rec("clone", id as i64, l as i64) } } }
            *slot.lock().unwrap() = Some(stream);
            if releaser {
                // somebody else releases them
                outbox.lock().unwrap().extend(held.drain(..));
                mcx::step();
            } else {
                for (h, id) in held.drain(..) { if h.read() != Ok(id) { mcx::rec("bad", id as i64, 3) } mcx::rec("rel.call", id as i64, l as i64); drop(h); mcx::rec("rel", id as i64, l as i64) }
            }
            done.fetch_add(1, std::sync::atomic::Ordering::SeqCst);
        }));
    }
    if spec.releaser {
        let (outbox, done) = (outbox.clone(), consumers_done.clone());
        bodies.push(Box::new(move || {
            loop {
                let batch: Vec<(Box<dyn Hd>, u32)> = outbox.lock().unwrap().drain(..).collect();
                let finished = done.load(std::sync::atomic::Ordering::SeqCst) == n_streams;
                for (h, id) in batch { if h.read() != Ok(id) { mcx::rec("bad", id as i64, 3) } mcx::rec("rel.call", id as i64, 9); drop(h); mcx::rec("rel", id as i64, 9) }
                if finished && outbox.lock().unwrap().is_empty() { break }
                mcx::yield_now();
            }
        }));
    }
    let sp = spec.clone();
    Instance { bodies, check: Box::new(move |out| {
        let mut v = Vec::new();
        for (t, p) in out.panics.iter().enumerate() { if let Some(p) = p { v.push(("panic".to_string(), format!("thread {t}: {p}"))) } }
        let log = &out.log;
        let ctx = || mcx::fmt_log(log);
        if out.terminal != mcx::Terminal::Done { v.push(("no-termination".into(), format!("execution ended {:?}: {}", out.terminal, ctx()))); return v }
        for r in log.iter().filter(|r| r.op == "bad") {
            let what = match r.b { 1 => "a rejected send handed back something else than the payload", 2 => "a payload arrived in storage that a handle still held by the same consumer points to", _ => "a handle held by a consumer stopped reading as the payload it was delivered as (destroyed or overwritten while held)" };
            v.push((match r.b { 1 => "bad-reject", 2 => "slot-reused-while-held", _ => "changed-while-held" }.into(), format!("payload {}: {what}: {}", r.a, ctx())));
        }
        let accepted: Vec<u32> = log.iter().filter(|r| r.op == "s.ret" && r.b == 1).map(|r| r.a as u32).collect();
        let rejected_sends: Vec<u32> = log.iter().filter(|r| r.op == "s.ret" && r.b == 0 && ((r.a % 100) % 2 == 0 || sp.kind == "uni-MC")).map(|r| r.a as u32).collect();
        // in the run: a payload whose every copy was delivered and released has been destroyed exactly once; none twice; none while a copy is out
        {
            let t = table.lock().unwrap();
            if let Some(b) = t.bad.first() { v.push(("double-destruction".into(), format!("{b}: {}", ctx()))) }
            for (id, n) in t.dropped.iter() { if *n > 1 { v.push(("double-destruction".into(), format!("payload {id} was destroyed {n} times: {}", ctx()))) } }
            for id in &rejected_sends { if t.dropped.get(id).copied().unwrap_or(0) != 1 { v.push(("double-destruction".into(), format!("payload {id} was handed back by a rejected send and dropped by the caller; destructor runs: {}: {}", t.dropped.get(id).copied().unwrap_or(0), ctx()))) } }
            for id in &accepted {
                let copies_out = n_streams;   // every listener existed before the first send
                let got = log.iter().filter(|r| r.op == "got" && r.a == *id as i64).count();
                let clones = log.iter().filter(|r| r.op == "clone" && r.a == *id as i64).count();
                let released = log.iter().filter(|r| r.op == "rel" && r.a == *id as i64).count();
                let n = t.dropped.get(id).copied().unwrap_or(0);
                let all_back = got == copies_out && released == got + clones;
                if all_back && n != 1 { v.push(("not-destroyed".into(), format!("payload {id} was delivered to every listener and every handle released, destructor runs: {n}: {}", ctx()))) }
                if !all_back && n != 0 { v.push(("destroyed-while-referenced".into(), format!("payload {id} was destroyed although {} of its {} copies / clones are still buffered or held: {}", copies_out + clones - released.min(copies_out + clones), copies_out + clones, ctx()))) }
            }
        }
        if !v.is_empty() { return v }
        // afterwards: drain and release everything, then the pool / ring is whole again
        let waker = noop_waker();
        let mut cx = Context::from_waker(&waker);
        let mut drained: Vec<u32> = Vec::new();
        for slot in &streams {
            let mut stream = slot.lock().unwrap().take().unwrap();
            for _ in 0..F::B + 2 { match Pin::new(&mut stream).poll_next(&mut cx) { Poll::Ready(Some(item)) => { match item.read() { Ok(id) => drained.push(id), Err(e) => v.push(("delivered-destroyed".into(), format!("{e}: {}", ctx()))) } drop(item) } _ => break } }
            *slot.lock().unwrap() = Some(stream);
        }
        {
            let t = table.lock().unwrap();
            for id in &accepted { let n = t.dropped.get(id).copied().unwrap_or(0); if n != 1 { v.push(((if n == 0 { "not-destroyed" } else { "double-destruction" }).into(), format!("after everything was consumed and released, payload {id} has been destroyed {n} times: {}", ctx()))) } }
        }
        if v.is_empty() && (F::POOLED || !F::MULTI) {
            let mut n = 0;
            for k in 0..F::B + 1 { match chan.send(Tr::new(900 + k as u32, &table)) { keen_retry::RetryResult::Ok { .. } => n += 1, _ => break } }
            if n != F::B { v.push(("capacity-not-restored".into(), format!("after every event was consumed and released the channel accepted {n} events (BUFFER_SIZE = {}): {}", F::B, ctx()))) }
        }
        // teardown with those events still buffered: streams first, then the channel (the sanitizer build repeats teardowns on histories)
        for slot in &streams { *slot.lock().unwrap() = None }
        let _ = &sp;
        {
            let t = table.lock().unwrap();
            if let Some(b) = t.bad.first() { v.push(("double-destruction".into(), format!("at teardown: {b}: {}", ctx()))) }
        }
        v
    }) }
}

pub fn scenarios(tier: Tier) -> Vec<ScenarioDef> {
    let mut defs = Vec::new();
    for kind in KINDS {
        let multi = kind.starts_with("multi");
        // (name, listeners, producers, sends each, polls per listener, clone, releaser thread)
        let mut ladder: Vec<(&str, usize, usize, usize, usize, bool, bool)> = if multi {
            vec![("T3-a", 2, 1, 1, 2, false, false), ("T3-b", 2, 1, 1, 2, true, false), ("T2-a", 1, 1, 2, 2, true, false)]
        } else {
            vec![("T2-a", 1, 1, 3, 2, false, false), ("T3-a", 1, 2, 2, 2, false, false), ("T3-b", 1, 1, 3, 2, false, true)]
        };
        if tier == Tier::Thorough {
            if multi { ladder.extend([("T3-c", 2, 1, 2, 3, true, false), ("T4-a", 2, 1, 1, 2, true, true), ("T4-b", 2, 2, 1, 2, false, false)]) }
            else { ladder.extend([("T2-b", 1, 1, 4, 3, false, false), ("T3-c", 1, 2, 2, 3, false, false), ("T4-a", 1, 2, 2, 2, false, true)]) }
        }
        for (idx, (name, listeners, producers, sends, polls, clone, releaser)) in ladder.into_iter().enumerate() {
            // the Arc Multi channels wait (documented) when a listener's queue is full: keep the number of events below BUFFER_SIZE
            if multi && !kind.contains("-O") && producers * sends >= 2 { continue }
            let spec = Spec { kind, listeners, producers, sends, polls, clone, releaser };
            let threads = producers + if multi { listeners } else { 1 } + releaser as usize;
            let bound = match tier { Tier::Quick => if threads <= 2 { 3 } else { 2 }, Tier::Thorough => if threads <= 2 { 5 } else if threads == 3 { 3 } else { 2 } };
            defs.push(ScenarioDef { prop: "C05", family: format!("{kind}/threads"), rung: name.to_string(), rung_idx: idx, max_bound: bound, make: Arc::new(move || { let sp = spec.clone(); crate::dispatch_c05!(sp.kind, make(sp)) }) });
        }
    }
    defs
}
