//! C16 -- a rejected send changes nothing, never blocks; retry works once there is room (E2 histories + E1 interleavings)

use crate::chanseq::{self, Alphabet, Family, Mu, U};
use crate::common::*;
use crate::lin::{self, Hold};
use crate::mcx::{self, Instance};
use crate::registry::{ScenarioDef, Tier};
use crate::seqx::Config;
use futures::Stream;
use reactive_mutiny::prelude::advanced::*;
use std::pin::Pin;
use std::sync::{Arc, Mutex};
use std::task::{Context, Poll};

pub fn configs(tier: Tier) -> Vec<Config> {
    let mut v = Vec::new();
    for b in [2usize, 4] {
        for (oname, origin) in [("fresh", 0u32), ("wrap", 0u32.wrapping_sub(b as u32 + 1)), ("wrap1", u32::MAX)] {
            for kind in UniKind::ALL {
                if kind == UniKind::MC && oname != "fresh" { continue }
                // every entry point (reservations included where the channel has them)
                let al = if b == 2 { Alphabet::ALL } else { Alphabet::SENDS };
                let depth = match (tier, b) { (Tier::Quick, 2) => 64, (Tier::Quick, _) => 9, (Tier::Thorough, 2) => 64, (Tier::Thorough, _) => 14 };
                v.push(Config { name: format!("uni-{}/B{b}/{oname}", kind.name()), max_depth: depth, build: Box::new(move || chanseq::uni_sys(kind, b, al, origin)) });
            }
            for kind in [MultiKind::OA, MultiKind::OF] {
                let al = if b == 2 { Alphabet::ALL } else { Alphabet::SENDS };
                let depth = match (tier, b) { (Tier::Quick, 2) => 64, (Tier::Quick, _) => 9, (Tier::Thorough, 2) => 64, (Tier::Thorough, _) => 14 };
                v.push(Config { name: format!("multi-{}/B{b}/{oname}", kind.name()), max_depth: depth, build: Box::new(move || chanseq::ogre_sys(kind, b, al, origin)) });
            }
        }
    }
    v
}

// ------------------------------------------------------------------------------------------------ E1

#[derive(Debug, Clone)]
pub struct Spec {
    /// entry point of producer i
    pub eps: Vec<Ep>,
    pub sends: usize,
    /// events already buffered when the run starts
    pub prefill: usize,
    /// true: one consumer takes everything (polling; never parks); producers retry a rejected payload until it is accepted.
    /// false: nobody consumes; every producer makes exactly one attempt, which must come back rejected
    pub consumer: bool,
    pub b: usize,
    pub handles: bool,
}

fn make<F: Family>(spec: Spec) -> Instance where F::C: Send + Sync, F::D: Send, F::S: Send + 'static {
    let chan = F::mk();
    let stream = F::open(&chan);
    for k in 0..spec.prefill { let _ = chan.send(1 + k as u32); }
    let total = spec.prefill + spec.eps.len() * spec.sends;
    let mut bodies: Vec<mcx::Body> = Vec::new();
    for (p, ep) in spec.eps.iter().enumerate() {
        let chan = chan.clone();
        let (ep, sends, retry) = (*ep, spec.sends, spec.consumer);
        bodies.push(Box::new(move || {
            let c: &'static F::C = static_ref(&chan);
            for k in 0..sends {
                let v = (100 * (p + 1) + k) as u32;
                // `send_ep` logs every attempt (s.call / s.ret) and the rejection contract (s.bad)
                while !send_ep::<F::C, F::D>(c, ep, v) { if !retry { break } mcx::yield_now() }
            }
        }));
    }
    let slot = Arc::new(Mutex::new(Some(stream)));
    if spec.consumer {
        let slot = slot.clone();
        bodies.push(Box::new(move || {
            let mut stream = slot.lock().unwrap().take().unwrap();
            let waker = noop_waker();
            let mut got = 0;
            while got < total {
                match poll_logged(&mut stream, &waker, 0) {
                    Poll::Ready(Some(item)) => { got += 1; let v = item.val(); drop(item); mcx::rec("rel", 0, v as i64) }
                    Poll::Ready(None) => break,
                    Poll::Pending => mcx::yield_now(),
                }
            }
            *slot.lock().unwrap() = Some(stream);
        }));
    }
    let sp = spec.clone();
    Instance { bodies, check: Box::new(move |out| {
        let mut v = Vec::new();
        for (t, p) in out.panics.iter().enumerate() { if let Some(p) = p { v.push(("panic".to_string(), format!("thread {t}: {p}"))) } }
        let log = &out.log;
        let ctx = || mcx::fmt_log(log);
        if out.terminal != mcx::Terminal::Done {
            let what = if sp.consumer { "a producer retrying against a consumer that keeps taking events never gets through (or the consumer never sees an accepted event)" } else { "a send issued on a full channel that nobody consumes from does not return: it waits for room instead of answering 'full'" };
            v.push(("blocked".into(), format!("execution ended {:?}: {what}: {}", out.terminal, ctx())));
            return v;
        }
        for r in log.iter().filter(|r| r.op == "s.bad") { v.push(("bad-reject".into(), format!("send of {} contradicts the rejection contract (code {}): {}", r.a, r.b, ctx()))) }
        // attempts: (value, call, ret, accepted)
        let mut attempts: Vec<(i64, u32, u32, bool)> = Vec::new();
        let mut open: std::collections::HashMap<u8, (i64, u32)> = std::collections::HashMap::new();
        for r in log { match r.op { "s.call" => { open.insert(r.tid, (r.a, r.stamp)); } "s.ret" => { if let Some((val, call)) = open.remove(&r.tid) { attempts.push((val, call, r.stamp, r.b == 1)) } } _ => {} } }
        let given_back = |val: i64| -> u32 {
            // when the slot taken by this event is free again: received (movable) / handle released (pooled)
            let got = log.iter().find(|x| x.op == "got" && x.a == val);
            match got { None => u32::MAX, Some(g) => if sp.handles { log.iter().find(|x| x.op == "rel" && x.b == val && x.stamp > g.stamp).map(|x| x.stamp).unwrap_or(u32::MAX) } else { g.stamp } }
        };
        if !sp.consumer {
            // nobody consumes: every attempt must have been rejected, the channel is unchanged, and a retry works once there is room
            for a in attempts.iter().filter(|a| a.3) { v.push(("accepted-beyond-capacity".into(), format!("send of {} was accepted by a channel already holding BUFFER_SIZE = {} events: {}", a.0, sp.b, ctx()))) }
            let pending = chan.pending_items_count() as usize;
            if pending != sp.prefill { v.push(("pending-count".into(), format!("{} events were buffered, {} rejected sends later pending_items_count() = {pending}: {}", sp.prefill, attempts.len(), ctx()))) }
            let waker = noop_waker();
            let mut cx = Context::from_waker(&waker);
            let mut stream = slot.lock().unwrap().take().unwrap();
            let mut drained = Vec::new();
            for _ in 0..sp.b + 2 { match Pin::new(&mut stream).poll_next(&mut cx) { Poll::Ready(Some(item)) => drained.push(item.val()), _ => break } }
            let want: Vec<u32> = (0..sp.prefill as u32).map(|k| 1 + k).collect();
            if drained != want { v.push(("rejected-send-visible".into(), format!("the stream yields {:?} after the rejected sends; buffered were {:?}: {}", drained, want, ctx()))) }
            if v.is_empty() {
                let mut n = 0;
                for k in 0..sp.b + 1 { match chan.send(900 + k as u32) { keen_retry::RetryResult::Ok { .. } => n += 1, _ => break } }
                if n != sp.b { v.push(("capacity-not-restored".into(), format!("after the rejected sends and a complete drain, {n} sends were accepted (BUFFER_SIZE = {}): {}", sp.b, ctx()))) }
            }
            drop(stream);
            return v;
        }
        // with a consumer: everything is eventually accepted and delivered exactly once
        let mut delivered: Vec<i64> = log.iter().filter(|r| r.op == "got").map(|r| r.a).collect();
        delivered.sort();
        let mut want: Vec<i64> = (0..sp.prefill as i64).map(|k| 1 + k).collect();
        for p in 0..sp.eps.len() { for k in 0..sp.sends { want.push((100 * (p + 1) + k) as i64) } }
        want.sort();
        if delivered != want { v.push(("not-exactly-once".into(), format!("every payload was retried until accepted, so {:?} must be delivered once each; delivered {:?}: {}", want, delivered, ctx()))) }
        let accepted_twice: Vec<i64> = want.iter().copied().filter(|w| attempts.iter().filter(|a| a.0 == *w && a.3).count() > 1).collect();
        if !accepted_twice.is_empty() { v.push(("accepted-twice".into(), format!("{:?}: {}", accepted_twice, ctx()))) }
        // every rejection is justified: at some instant of the call all BUFFER_SIZE slots can have been taken
        for (val, call, ret, ok) in &attempts {
            if *ok { continue }
            let mut holds: Vec<Hold> = (0..sp.prefill as i64).map(|k| Hold { from: 0, until: given_back(1 + k) }).collect();
            for (oval, ocall, oret, ook) in &attempts {
                if oval == val { continue }
                // an accepted send takes a slot from its call until its event was given back -- and at least until the call itself
                // returned (the ogre_arc Multi channels keep the producer's own handle to the payload up to the end of `send`)
                holds.push(Hold { from: *ocall, until: if *ook { given_back(*oval).max(*oret) } else { *oret } });
            }
            if !lin::full_justified(*call, *ret, &holds, sp.b) {
                v.push(("unjustified-full".into(), format!("the attempt to send {val} over [{call},{ret}] was rejected although at no instant of the call {} slots can have been taken: {}", sp.b, ctx())));
            }
        }
        v
    }) }
}

pub fn scenarios(tier: Tier) -> Vec<ScenarioDef> {
    let mut defs = Vec::new();
    let b = 2usize;
    // (kind name, entry points, handles, is MC)
    let mut kinds: Vec<(&str, Vec<Ep>, bool)> = vec![
        ("uni-MA", vec![Ep::Send, Ep::SendWith, Ep::SendWithAsync, Ep::Reserve], false), ("uni-MF", vec![Ep::Send, Ep::SendWith, Ep::SendWithAsync], false),
        ("uni-MC", vec![Ep::Send, Ep::SendWith, Ep::SendWithAsync], false),
        ("uni-ZA", vec![Ep::Send, Ep::SendWith, Ep::SendWithAsync, Ep::Reserve], true), ("uni-ZF", vec![Ep::Send, Ep::SendWith, Ep::SendWithAsync, Ep::Reserve], true),
        ("multi-OA", vec![Ep::Send, Ep::SendWith, Ep::SendWithAsync, Ep::Reserve], true), ("multi-OF", vec![Ep::Send, Ep::SendWith, Ep::SendWithAsync, Ep::Reserve], true),
    ];
    for (kname, eps, handles) in kinds.drain(..) {
        let mut specs: Vec<(String, String, usize, Spec, u32)> = Vec::new();
        // family "full": nobody consumes, the buffer is full, 1-3 producers make one attempt each through every entry point
        for np in 1..=3usize {
            if np == 3 && tier == Tier::Quick { continue }
            for (i, ep) in eps.iter().enumerate() {
                let mut pe = vec![*ep];
                for j in 1..np { pe.push(eps[(i + j) % eps.len()]) }
                let bound = match (tier, np) { (_, 1) => 0, (Tier::Quick, _) => 2, (Tier::Thorough, 2) => 4, (Tier::Thorough, _) => 3 };
                specs.push((format!("{kname}/full/{}", ep.name()), format!("P{np}"), np, Spec { eps: pe, sends: 1, prefill: b, consumer: false, b, handles }, bound));
            }
        }
        // family "retry": producers retry until accepted while one consumer takes everything (MC: plain `send` only -- its setter-based
        // sends wait by documented design once their initial fullness test has passed)
        for (np, sends, prefill) in [(2usize, 1usize, 2usize), (2, 2, 0), (2, 2, 2), (3, 1, 2)] {
            if tier == Tier::Quick && (np == 3 || (sends == 2 && prefill == 2)) { continue }
            for (i, ep) in eps.iter().enumerate() {
                if kname == "uni-MC" && *ep != Ep::Send { continue }
                let mut pe = vec![*ep];
                for j in 1..np { pe.push(if kname == "uni-MC" { Ep::Send } else { eps[(i + j) % eps.len()] }) }
                let bound = match (tier, np) { (Tier::Quick, _) => 2, (Tier::Thorough, 2) => 3, (Tier::Thorough, _) => 2 };
                specs.push((format!("{kname}/retry/{}", ep.name()), format!("P{np}-E{sends}-Q{prefill}"), np * 10 + sends, Spec { eps: pe, sends, prefill, consumer: true, b, handles }, bound));
            }
        }
        for (family, rung, idx, spec, bound) in specs {
            macro_rules! add { ($F:ty) => {{ let sp = spec.clone(); defs.push(ScenarioDef { prop: "C16", family: family.clone(), rung: rung.clone(), rung_idx: idx, max_bound: bound, make: Arc::new(move || make::<$F>(sp.clone())) }) }} }
            match kname {
                "uni-MA" => add!(U<ChannelUniMoveAtomic<u32, 2, 1>>), "uni-MF" => add!(U<ChannelUniMoveFullSync<u32, 2, 1>>), "uni-MC" => add!(U<ChannelUniMoveCrossbeam<u32, 2, 1>>),
                "uni-ZA" => add!(U<ChannelUniZeroCopyAtomic<u32, 2, 1>>), "uni-ZF" => add!(U<ChannelUniZeroCopyFullSync<u32, 2, 1>>),
                "multi-OA" => add!(Mu<ChannelMultiOgreArcAtomic<u32, 2, 2>>), _ => add!(Mu<ChannelMultiOgreArcFullSync<u32, 2, 2>>),
            }
        }
    }
    defs
}

/// C01 on the crossbeam Uni channel under contention: a setter-based send (which, by documented design, waits once its initial
/// fullness test has passed) races plain sends that fill the channel while one consumer keeps taking events. Everything a send
/// reported as accepted must arrive, exactly once (the consumer waits for it: an accepted event that never arrives ends in a stall).
pub fn mc_contended_scenarios(prop: &'static str, tier: Tier) -> Vec<ScenarioDef> {
    let mut defs = Vec::new();
    for setter_ep in [Ep::SendWith, Ep::SendWithAsync] {
        for (idx, (np, sends, prefill)) in [(2usize, 1usize, 1usize), (2, 2, 0), (3, 1, 1), (3, 1, 0)].into_iter().enumerate() {
            if tier == Tier::Quick && np == 3 && prefill == 0 { continue }
            let mut eps = vec![setter_ep];
            for _ in 1..np { eps.push(Ep::Send) }
            let spec = Spec { eps, sends, prefill, consumer: true, b: 2, handles: false };
            let bound = match (tier, np) { (Tier::Quick, 2) => 3, (Tier::Quick, _) => 2, (Tier::Thorough, 2) => 4, (Tier::Thorough, _) => 3 };
            defs.push(ScenarioDef { prop, family: format!("uni-MC/contended/{}", setter_ep.name()), rung: format!("P{np}-E{sends}-Q{prefill}"), rung_idx: idx, max_bound: bound,
                make: Arc::new(move || make::<U<ChannelUniMoveCrossbeam<u32, 2, 1>>>(spec.clone())) });
        }
    }
    defs
}
