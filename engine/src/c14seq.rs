//! C14, E2 part: every history of new / new_with_clones / increment_references + raw_copy / OgreUnique::new / into_ogre_arc /
//! clone / drop over handles to instrumented values pooled in one real allocator, against a model "value id -> live handles".

use crate::c05core::{SharedTable, Table, Tr};
use crate::seqx::{Bad, Config, Sys};
use reactive_mutiny::prelude::advanced::*;
use reactive_mutiny::verif::{self, VerifState};
use std::sync::{Arc, Mutex};

const POOL: usize = 2;

enum H<A: BoundedOgreAllocator<Tr> + Send + Sync + 'static> { Shared(OgreArc<Tr, A>), Unique(OgreUnique<Tr, A>) }
impl<A: BoundedOgreAllocator<Tr> + Send + Sync + 'static> H<A> {
    fn read(&self) -> Result<u32, String> { match self { H::Shared(h) => Tr::read(h), H::Unique(h) => Tr::read(h) } }
    fn addr(&self) -> usize { match self { H::Shared(h) => &**h as *const Tr as usize, H::Unique(h) => &**h as *const Tr as usize } }
}

pub struct ArcSys<A: BoundedOgreAllocator<Tr> + Send + Sync + 'static> {
    // declaration order = drop order: handles release into the allocator
    handles: Vec<(H<A>, u32)>,
    alloc: Box<A>,
    table: SharedTable,
    /// ids of every value ever created
    created: Vec<u32>,
    max_handles: usize,
}

impl<A: BoundedOgreAllocator<Tr> + VerifState + Send + Sync + 'static> ArcSys<A> {
    pub fn new(origin: u32, max_handles: usize) -> Self {
        verif::set_sequence_origin(origin);
        let alloc = Box::new(A::new());
        verif::set_sequence_origin(0);
        ArcSys { handles: Vec::new(), alloc, table: Arc::new(Mutex::new(Table::default())), created: Vec::new(), max_handles }
    }
    fn alloc(&self) -> &'static A { unsafe { &*(&*self.alloc as *const A) } }
    fn alive_values(&self) -> usize { let mut ids: Vec<u32> = self.handles.iter().map(|h| h.1).collect(); ids.sort(); ids.dedup(); ids.len() }
    fn handles_of(&self, id: u32) -> usize { self.handles.iter().filter(|h| h.1 == id).count() }
    /// the oracle evaluated after every step
    fn judge(&self, op: &str) -> Result<(), Bad> {
        for (k, (h, id)) in self.handles.iter().enumerate() {
            match h.read() {
                Ok(got) if got == *id => {}
                Ok(got) => return Err(("bad-deref".into(), format!("after {op}: handle #{k} to value {id} dereferences to value {got}"))),
                Err(e) => return Err(("bad-deref".into(), format!("after {op}: handle #{k} to value {id}: {e}"))),
            }
            if let H::Shared(a) = h {
                let rc = a.references_count() as usize;
                let want = self.handles_of(*id);
                if rc != want { return Err(("reference-count".into(), format!("after {op}: value {id} has {want} live handle(s), references_count() = {rc}"))) }
            }
        }
        // two values alive at the same time live in different slots
        for (i, a) in self.handles.iter().enumerate() { for b in &self.handles[i + 1..] {
            if (a.1 == b.1) != (a.0.addr() == b.0.addr()) { return Err(("slot-aliasing".into(), format!("after {op}: handles to values {} and {} point at {:#x} and {:#x}", a.1, b.1, a.0.addr(), b.0.addr()))) }
        } }
        let t = self.table.lock().unwrap();
        if let Some(b) = t.bad.first() { return Err(("bad-destructor".into(), format!("after {op}: {b}"))) }
        for id in &self.created {
            let d = t.dropped.get(id).copied().unwrap_or(0);
            let live = self.handles_of(*id);
            if live > 0 && d != 0 { return Err(("destroyed-while-held".into(), format!("after {op}: value {id} still has {live} handle(s) but its destructor ran {d} time(s)"))) }
            if live == 0 && d != 1 { return Err((if d == 0 { "never-destroyed" } else { "destroyed-twice" }.into(), format!("after {op}: the last handle of value {id} is gone, its destructor ran {d} time(s)"))) }
        }
        Ok(())
    }
}

impl<A: BoundedOgreAllocator<Tr> + VerifState + Send + Sync + 'static> Sys for ArcSys<A> {
    fn enabled(&self) -> Vec<String> {
        let mut v = Vec::new();
        let room = self.max_handles - self.handles.len();
        if room >= 1 { v.push("new_with".to_string()); v.push("unique".to_string()) }
        if room >= 2 { v.push("new_with_clones<2>".to_string()); v.push("new+increment_references(1)+raw_copy".to_string()) }
        if room >= 3 { v.push("new_with_clones<3>".to_string()) }
        for (k, (h, _)) in self.handles.iter().enumerate() {
            match h { H::Shared(_) => if room >= 1 { v.push(format!("clone #{k}")); if room >= 2 { v.push(format!("increment_references(2)+2 raw_copy #{k}")) } }, H::Unique(_) => v.push(format!("into_ogre_arc #{k}")) }
        }
        for k in 0..self.handles.len() { v.push(format!("drop #{k}")) }
        v
    }
    fn apply(&mut self, choice: usize) -> Result<String, Bad> {
        let op = self.enabled()[choice].clone();
        let alloc = self.alloc();
        let obs;
        let is_ctor = op.starts_with("new") || op == "unique";
        if is_ctor {
            let id = 1 + self.created.len() as u32;
            let table = self.table.clone();
            let set = move |slot: &mut Tr| unsafe { std::ptr::write(slot, Tr::new(id, &table)) };
            let room = self.alive_values() < POOL;
            let made: Option<Vec<H<A>>> = match op.as_str() {
                "new_with" => OgreArc::new_with(set, alloc).map(|a| vec![H::Shared(a)]),
                "unique" => OgreUnique::new(set, alloc).map(|u| vec![H::Unique(u)]),
                "new_with_clones<2>" => OgreArc::new_with_clones::<2, _>(set, alloc).map(|a| a.into_iter().map(H::Shared).collect()),
                "new_with_clones<3>" => OgreArc::new_with_clones::<3, _>(set, alloc).map(|a| a.into_iter().map(H::Shared).collect()),
                _ => match OgreArc::new(alloc) {
                    Some((first, slot)) => { set(slot); unsafe { first.increment_references(1) }; let second = unsafe { first.raw_copy() }; Some(vec![H::Shared(first), H::Shared(second)]) }
                    None => None,
                },
            };
            match made {
                Some(hs) => {
                    if !room { return Err(("over-capacity".into(), format!("{op} succeeded although {POOL} values are alive on a pool of {POOL}"))) }
                    self.created.push(id);
                    for h in hs { self.handles.push((h, id)) }
                    obs = format!("{op} -> some");
                }
                None => {
                    if room { return Err(("unjustified-exhaustion".into(), format!("{op} failed with only {} value(s) alive on a pool of {POOL}", self.alive_values()))) }
                    // the setter was not run: the id was never created
                    if self.table.lock().unwrap().created.contains(&id) { return Err(("setter-ran-on-failure".into(), format!("{op} failed but ran its setter"))) }
                    obs = format!("{op} -> none");
                }
            }
        } else {
            let k: usize = op.rsplit('#').next().unwrap().parse().unwrap();
            if op.starts_with("clone") {
                let id = self.handles[k].1;
                let c = match &self.handles[k].0 { H::Shared(a) => a.clone(), _ => unreachable!() };
                self.handles.push((H::Shared(c), id));
                obs = "cloned".into();
            } else if op.starts_with("increment_references") {
                let id = self.handles[k].1;
                let (c1, c2) = match &self.handles[k].0 { H::Shared(a) => unsafe { a.increment_references(2); (a.raw_copy(), a.raw_copy()) }, _ => unreachable!() };
                self.handles.push((H::Shared(c1), id)); self.handles.push((H::Shared(c2), id));
                obs = "copied twice".into();
            } else if op.starts_with("into_ogre_arc") {
                let (h, id) = self.handles.remove(k);
                let a = match h { H::Unique(u) => u.into_ogre_arc(), _ => unreachable!() };
                self.handles.insert(k, (H::Shared(a), id));
                obs = "shared".into();
            } else {
                let (h, _id) = self.handles.remove(k);
                drop(h);
                obs = "dropped".into();
            }
        }
        self.judge(&op)?;
        Ok(obs)
    }
    fn key(&self) -> Vec<u64> {
        let mut k = Vec::new();
        self.alloc.verif_state(&mut k);
        k.push(u64::MAX);
        // handles in order: kind, slot (values are told apart by their slot; which id a value carries does not influence the code)
        for (h, _) in &self.handles { k.push(matches!(h, H::Unique(_)) as u64); k.push(self.alloc.id_from_ref(unsafe { &*(h.addr() as *const Tr) }) as u64) }
        k
    }
    fn epilogue(&mut self) -> Result<(), Bad> {
        // release everything, newest first: every value destroyed exactly once, the pool is whole again
        while let Some((h, _)) = self.handles.pop() { drop(h); self.judge("releasing every handle")? }
        let got: Vec<u32> = (0..POOL + 1).filter_map(|_| self.alloc.alloc_ref().map(|x| x.1)).collect();
        if got.len() != POOL { return Err(("slot-not-returned".into(), format!("every handle is gone, yet {} of {POOL} slots can be allocated", got.len()))) }
        for id in got { unsafe { std::ptr::write(self.alloc.ref_from_id(id), Tr::default()) }; self.alloc.dealloc_id(id) }
        Ok(())
    }
}

pub fn configs(thorough: bool) -> Vec<Config> {
    let mut v = Vec::new();
    for atomic in [true, false] {
        for (oname, origin) in [("fresh", 0u32), ("wrap", 0u32.wrapping_sub(POOL as u32 + 1)), ("wrap1", u32::MAX)] {
            for max_handles in if thorough { vec![4usize, 6] } else { vec![4usize] } {
                v.push(Config { name: format!("{}/H{max_handles}/{oname}", if atomic { "AllocatorAtomicArray" } else { "AllocatorFullSyncArray" }), max_depth: 64,
                    build: Box::new(move || if atomic { Box::new(ArcSys::<AllocatorAtomicArray<Tr, POOL>>::new(origin, max_handles)) as Box<dyn Sys> } else { Box::new(ArcSys::<AllocatorFullSyncArray<Tr, POOL>>::new(origin, max_handles)) as Box<dyn Sys> }) });
            }
        }
    }
    v
}
