//! Sequential systems for E2 (`seqx`): the real channels, rings and allocators driven through their public API, each next to a
//! boring reference model. Used by C08 (reserved slots), C16 (rejected sends), C15 (differential over sequence origins),
//! C13 (allocator histories) and C05 (teardown histories).

use crate::common::*;
use crate::seqx::{Bad, Sys};
use futures::Stream;
use reactive_mutiny::prelude::advanced::*;
use reactive_mutiny::verif::{self, VerifState};
use std::collections::VecDeque;
use std::fmt::Debug;
use std::future::Future;
use std::marker::PhantomData;
use std::pin::Pin;
use std::sync::Arc;
use std::task::{Context, Poll};

/// values cycle so that state spaces close; the period exceeds what a channel can hold plus what can be in the caller's hands
pub const PERIOD: u32 = 8;

// ------------------------------------------------------------------------------------------------ channel families

/// unifies Uni channels (one consumer stream) and Multi channels (listeners) for the sequential systems
pub trait Family: 'static {
    type D: Val + Debug + 'static;
    type C: ChannelProducer<'static, u32, Self::D> + ChannelCommon<u32, Self::D> + VerifState + Send + Sync + 'static;
    type S: Stream<Item = Self::D> + Unpin;
    const MULTI: bool;
    const B: usize;
    fn mk() -> Arc<Self::C> { <Self::C as ChannelCommon<u32, Self::D>>::new("seq") }
    fn open(c: &Arc<Self::C>) -> Self::S;
}

pub struct U<C>(PhantomData<C>);
pub struct Mu<C>(PhantomData<C>);

impl<C> Family for U<C> where C: FullDuplexUniChannel<ItemType = u32> + VerifState + Send + Sync + 'static, C::DerivedItemType: Val {
    type D = C::DerivedItemType;
    type C = C;
    type S = MutinyStream<'static, u32, C, C::DerivedItemType>;
    const MULTI: bool = false;
    const B: usize = <C as FullDuplexUniChannel>::BUFFER_SIZE;
    fn open(c: &Arc<C>) -> Self::S { c.create_stream().0 }
}
impl<C> Family for Mu<C> where C: FullDuplexMultiChannel<ItemType = u32> + VerifState + Send + Sync + 'static, C::DerivedItemType: Val {
    type D = C::DerivedItemType;
    type C = C;
    type S = MutinyStream<'static, u32, C, C::DerivedItemType>;
    const MULTI: bool = true;
    const B: usize = <C as FullDuplexMultiChannel>::BUFFER_SIZE;
    fn open(c: &Arc<C>) -> Self::S { c.create_stream_for_new_events().0 }
}

/// what a channel kind does with capacity and reservations
#[derive(Debug, Clone, Copy, PartialEq, Eq)]
pub struct Traits {
    /// delivered items are handles into pooled storage: a slot stays taken until the handle is released
    pub handles: bool,
    pub has_reserve: bool,
    /// movable atomic ring: reservations are ring positions -- sent in reservation order, cancelled newest first, and no plain send
    /// while the caller holds a reservation
    pub ring_reservations: bool,
}

#[derive(Debug, Clone, Copy, PartialEq, Eq)]
pub struct Alphabet {
    pub send: bool,
    pub send_with: bool,
    pub send_with_async: bool,
    pub reserve: bool,
    /// overwrite the content of an outstanding reservation before it is sent
    pub rewrite: bool,
    /// Multi only: start without a listener; `open` / `close` a listener are operations
    pub listener_ops: bool,
    /// append `pending_items_count()` to every observation (C15 compares lengths)
    pub observe_len: bool,
}
impl Alphabet {
    pub const SENDS: Alphabet = Alphabet { send: true, send_with: true, send_with_async: true, reserve: false, rewrite: false, listener_ops: false, observe_len: true };
    pub const RESERVE: Alphabet = Alphabet { send: true, send_with: false, send_with_async: false, reserve: true, rewrite: true, listener_ops: false, observe_len: true };
    pub const ALL: Alphabet = Alphabet { send: true, send_with: true, send_with_async: true, reserve: true, rewrite: false, listener_ops: false, observe_len: true };
}

pub struct ChanSys<F: Family> {
    // field order = drop order: handles must not outlive their channel (the property assumes so)
    /// yielded handles not yet released, with the value they must keep showing
    held: Vec<(F::D, u32)>,
    stream: Option<F::S>,
    chan: Arc<F::C>,
    tr: Traits,
    al: Alphabet,
    /// accepted and not yet yielded (to the one stream / listener)
    fifo: VecDeque<u32>,
    /// outstanding reservations in reservation order: slot, content written
    reserved: Vec<(*mut u32, u32)>,
    sends: u32,
    /// set when `try_send_reserved` answered false for the oldest reservation of a channel at rest (reported by the next step)
    origin: u32,
}

impl<F: Family> ChanSys<F> {
    pub fn new(tr: Traits, al: Alphabet, origin: u32) -> Self {
        verif::set_sequence_origin(origin);
        let chan = F::mk();
        verif::set_sequence_origin(0);
        let stream = if F::MULTI && al.listener_ops { None } else { Some(F::open(&chan)) };
        ChanSys { chan, tr, al, stream, fifo: VecDeque::new(), held: Vec::new(), reserved: Vec::new(), sends: 0, origin }
    }

    fn next_val(&self) -> u32 { 1 + self.sends % PERIOD }

    /// slots taken, as the model sees it
    fn occupancy(&self) -> usize {
        self.fifo.len() + self.reserved.len() + if self.tr.handles { self.held.len() } else { 0 }
    }
    fn full(&self) -> bool { self.occupancy() >= F::B }

    fn plain_sends_allowed(&self) -> bool { !(self.tr.ring_reservations && !self.reserved.is_empty()) }

    fn accept(&mut self, v: u32) {
        self.sends += 1;
        if self.stream.is_some() { self.fifo.push_back(v) }
    }

    fn poll(&mut self) -> Poll<Option<F::D>> {
        let w = noop_waker();
        let mut cx = Context::from_waker(&w);
        Pin::new(self.stream.as_mut().unwrap()).poll_next(&mut cx)
    }

    fn check_send_result(&self, what: &str, v: u32, accepted: bool) -> Result<(), Bad> {
        if accepted && self.full() {
            return Err(("accepted-beyond-capacity".into(), format!("{what} of {v} was accepted although {} of {} slots are taken (pending {}, reserved {}, held {})", self.occupancy(), F::B, self.fifo.len(), self.reserved.len(), self.held.len())));
        }
        if !accepted && !self.full() {
            return Err(("rejected-with-room".into(), format!("{what} of {v} was rejected although only {} of {} slots are taken (pending {}, reserved {}, held {})", self.occupancy(), F::B, self.fifo.len(), self.reserved.len(), self.held.len())));
        }
        Ok(())
    }

    /// invariants checked after every operation
    fn check_rest(&self, op: &str) -> Result<(), Bad> {
        for (h, v) in &self.held {
            if h.val() != *v { return Err(("held-payload-changed".into(), format!("after {op}: a handle still held by the consumer now reads {} instead of {v}", h.val()))) }
        }
        for (i, (p, v)) in self.reserved.iter().enumerate() {
            let seen = unsafe { **p };
            if seen != *v { return Err(("reserved-slot-changed".into(), format!("after {op}: reservation #{i} now reads {seen} instead of the {v} written into it"))) }
            if self.reserved.iter().skip(i + 1).any(|(q, _)| q == p) { return Err(("slot-aliased".into(), format!("after {op}: two outstanding reservations share one slot"))) }
            if self.tr.handles && self.held.iter().any(|(h, _)| h.addr() == *p as usize) { return Err(("slot-aliased".into(), format!("after {op}: an outstanding reservation shares its slot with a handle the consumer still holds"))) }
        }
        let pending = self.chan.pending_items_count() as usize;
        if pending != self.fifo.len() { return Err(("pending-count".into(), format!("after {op}: pending_items_count() = {pending}, accepted and not yet yielded = {}", self.fifo.len()))) }
        Ok(())
    }

    fn send_plain(&mut self, v: u32) -> Result<bool, Bad> {
        match self.chan.send(v) {
            keen_retry::RetryResult::Ok { .. } => Ok(true),
            keen_retry::RetryResult::Transient { input, .. } => if input == v { Ok(false) } else { Err(("bad-reject".into(), format!("rejected send of {v} handed back {input}"))) },
            keen_retry::RetryResult::Fatal { .. } => Err(("bad-reject".into(), format!("send of {v} answered Fatal"))),
        }
    }
    fn send_with(&mut self, v: u32) -> Result<bool, Bad> {
        let invoked = std::cell::Cell::new(0u32);
        let r = self.chan.send_with(|slot| { invoked.set(invoked.get() + 1); unsafe { std::ptr::write(slot, v) } });
        match r {
            keen_retry::RetryResult::Ok { .. } => if invoked.get() == 1 { Ok(true) } else { Err(("setter-count".into(), format!("accepted send_with of {v} ran its setter {} times", invoked.get()))) },
            keen_retry::RetryResult::Transient { .. } => if invoked.get() == 0 { Ok(false) } else { Err(("bad-reject".into(), format!("rejected send_with of {v} had already run its setter"))) },
            keen_retry::RetryResult::Fatal { .. } => Err(("bad-reject".into(), format!("send_with of {v} answered Fatal"))),
        }
    }
    fn send_with_async(&mut self, v: u32) -> Result<bool, Bad> {
        let invoked = Arc::new(std::sync::atomic::AtomicU32::new(0));
        let inv = invoked.clone();
        let chan: &'static F::C = static_ref(&self.chan);
        let fut = chan.send_with_async(move |slot: &'static mut u32| { inv.fetch_add(1, std::sync::atomic::Ordering::Relaxed); async move { unsafe { std::ptr::write(slot, v) }; slot } });
        let mut fut = std::pin::pin!(fut);
        let w = noop_waker();
        let mut cx = Context::from_waker(&w);
        let r = match fut.as_mut().poll(&mut cx) { Poll::Ready(r) => r, Poll::Pending => return Err(("blocked".into(), format!("send_with_async of {v} with a ready setter answered Pending on a channel at rest"))) };
        let n = invoked.load(std::sync::atomic::Ordering::Relaxed);
        match r {
            keen_retry::RetryResult::Ok { .. } => if n == 1 { Ok(true) } else { Err(("setter-count".into(), format!("accepted send_with_async of {v} ran its setter {n} times"))) },
            keen_retry::RetryResult::Transient { .. } => if n == 0 { Ok(false) } else { Err(("bad-reject".into(), format!("rejected send_with_async of {v} had already run its setter"))) },
            keen_retry::RetryResult::Fatal { .. } => Err(("bad-reject".into(), format!("send_with_async of {v} answered Fatal"))),
        }
    }

    fn recv(&mut self) -> Result<String, Bad> {
        let got = self.poll();
        let want = self.fifo.front().copied();
        match (got, want) {
            (Poll::Ready(Some(item)), Some(w)) if item.val() == w => {
                self.fifo.pop_front();
                if self.tr.handles {
                    if self.held.iter().any(|(h, _)| h.addr() == item.addr()) { return Err(("slot-reused-while-held".into(), format!("event {w} arrived in storage that a handle still held by the consumer points to"))) }
                    self.held.push((item, w));
                }
                Ok(format!("got {w}"))
            }
            (Poll::Ready(Some(item)), Some(w)) => Err(("wrong-event".into(), format!("the stream yielded {} where {w} was next", item.val()))),
            (Poll::Ready(Some(item)), None) => Err(("alien-event".into(), format!("the stream yielded {} although nothing accepted is outstanding", item.val()))),
            (Poll::Pending, None) => Ok("pending".into()),
            (Poll::Ready(None), None) => Err(("ended".into(), "the stream answered end-of-stream without having been told to end".into())),
            (Poll::Pending, Some(w)) | (Poll::Ready(None), Some(w)) => Err(("missed-event".into(), format!("event {w} was accepted but the stream finds nothing"))),
        }
    }

    /// shared by C08 / C16: everything outstanding is settled, then exactly BUFFER_SIZE events fit, and they come out
    pub fn settle_and_refill(&mut self) -> Result<(), Bad> {
        // cancel what is reserved, newest first
        while let Some((p, v)) = self.reserved.pop() {
            if !self.chan.try_cancel_slot_reserve(unsafe { &mut *p }) {
                return Err(("reserved-slot-uncancellable".into(), format!("cancelling the newest outstanding reservation (content {v}) of a channel at rest answered false")));
            }
        }
        if self.stream.is_none() { self.stream = Some(F::open(&self.chan)) }
        while !self.fifo.is_empty() { self.recv()?; self.held.clear(); }
        self.held.clear();
        if let Poll::Ready(Some(item)) = self.poll() { return Err(("alien-event".into(), format!("after everything accepted was yielded the stream still yields {}", item.val()))) }
        let mut accepted = 0;
        for k in 0..F::B + 1 {
            let v = 100 + k as u32;
            if self.send_plain(v)? { accepted += 1; self.fifo.push_back(v) } else { break }
        }
        if accepted != F::B {
            return Err(("capacity-not-restored".into(), format!("after every reservation was sent or cancelled and every event consumed and released, {accepted} sends were accepted (BUFFER_SIZE = {})", F::B)));
        }
        while !self.fifo.is_empty() { self.recv()?; self.held.clear(); }
        Ok(())
    }
}

impl<F: Family> Sys for ChanSys<F> {
    fn enabled(&self) -> Vec<String> {
        let mut v = Vec::new();
        if self.plain_sends_allowed() {
            if self.al.send { v.push("send".to_string()) }
            if self.al.send_with { v.push("send_with".to_string()) }
            if self.al.send_with_async { v.push("send_with_async".to_string()) }
        }
        if self.stream.is_some() { v.push("recv".to_string()) }
        for k in 0..self.held.len() { v.push(format!("release #{k}")) }
        if self.al.reserve && self.tr.has_reserve {
            v.push("reserve".to_string());
            for i in 0..self.reserved.len() { v.push(format!("send_reserved #{i}")) }
            for i in 0..self.reserved.len() {
                // the movable atomic channel documents: cancellations in reverse reservation order
                if !self.tr.ring_reservations || i + 1 == self.reserved.len() { v.push(format!("cancel #{i}")) }
            }
            if self.al.rewrite { for i in 0..self.reserved.len() { v.push(format!("rewrite #{i}")) } }
        }
        if F::MULTI && self.al.listener_ops { v.push(if self.stream.is_none() { "open".to_string() } else { "close".to_string() }) }
        v
    }

    fn apply(&mut self, choice: usize) -> Result<String, Bad> {
        let op = self.enabled()[choice].clone();
        let mut obs;
        if op == "send" || op == "send_with" || op == "send_with_async" {
            let v = self.next_val();
            let accepted = match op.as_str() { "send" => self.send_plain(v)?, "send_with" => self.send_with(v)?, _ => self.send_with_async(v)? };
            self.check_send_result(&op, v, accepted)?;
            if accepted { self.accept(v) }
            obs = format!("{op} {v} -> {}", if accepted { "ok" } else { "full" });
        } else if op == "recv" {
            obs = self.recv()?;
        } else if let Some(k) = op.strip_prefix("release #") {
            let k: usize = k.parse().unwrap();
            let (h, v) = self.held.remove(k);
            if h.val() != v { return Err(("held-payload-changed".into(), format!("a handle held by the consumer reads {} instead of {v} when it is released", h.val()))) }
            drop(h);
            obs = format!("released {v}");
        } else if op == "reserve" {
            let v = self.next_val();
            match self.chan.reserve_slot() {
                Some(slot) => {
                    if self.full() { return Err(("accepted-beyond-capacity".into(), format!("reserve_slot succeeded although {} of {} slots are taken", self.occupancy(), F::B))) }
                    unsafe { std::ptr::write(slot, v) };
                    self.sends += 1;
                    self.reserved.push((slot as *mut u32, v));
                    obs = format!("reserved {v}");
                }
                None => {
                    if !self.full() { return Err(("rejected-with-room".into(), format!("reserve_slot answered None although only {} of {} slots are taken", self.occupancy(), F::B))) }
                    obs = "reserve -> full".to_string();
                }
            }
        } else if let Some(i) = op.strip_prefix("send_reserved #") {
            let i: usize = i.parse().unwrap();
            let (p, v) = self.reserved[i];
            if self.chan.try_send_reserved(unsafe { &mut *p }) {
                self.reserved.remove(i);
                if self.stream.is_some() { self.fifo.push_back(v) }
                obs = format!("sent reserved {v}");
            } else {
                // a legal answer when it is not this slot's turn; on a channel at rest the oldest reservation has nobody to wait for
                if i == 0 || !self.tr.ring_reservations {
                    return Err(("reserved-slot-unsendable".into(), format!("try_send_reserved answered false for {} reservation (content {v}) of a channel at rest: retrying cannot change the answer", if self.tr.ring_reservations { "the oldest outstanding" } else { "an outstanding" })));
                }
                obs = format!("send reserved {v} -> not yet");
            }
        } else if let Some(i) = op.strip_prefix("cancel #") {
            let i: usize = i.parse().unwrap();
            let (p, v) = self.reserved[i];
            if self.chan.try_cancel_slot_reserve(unsafe { &mut *p }) {
                self.reserved.remove(i);
                obs = format!("cancelled {v}");
            } else {
                return Err(("reserved-slot-uncancellable".into(), format!("try_cancel_slot_reserve answered false for {} reservation (content {v}) of a channel at rest", if self.tr.ring_reservations { "the newest outstanding" } else { "an outstanding" })));
            }
        } else if let Some(i) = op.strip_prefix("rewrite #") {
            let i: usize = i.parse().unwrap();
            let v = self.next_val();
            self.sends += 1;
            unsafe { std::ptr::write(self.reserved[i].0, v) };
            self.reserved[i].1 = v;
            obs = format!("rewrote -> {v}");
        } else if op == "open" {
            self.stream = Some(F::open(&self.chan));
            obs = "opened".to_string();
        } else if op == "close" {
            self.stream = None;
            self.fifo.clear();
            obs = "closed".to_string();
        } else { unreachable!("{op}") }
        self.check_rest(&op)?;
        if self.al.observe_len { obs.push_str(&format!(" | len {}", self.chan.pending_items_count())) }
        Ok(obs)
    }

    fn key(&self) -> Vec<u64> {
        let mut k = Vec::new();
        self.chan.verif_state(&mut k);
        k.push(u64::MAX);
        k.push((self.sends % PERIOD) as u64);
        k.push(self.stream.is_some() as u64);
        k.extend(self.fifo.iter().map(|v| *v as u64));
        k.push(u64::MAX - 1);
        k.extend(self.held.iter().map(|(_, v)| *v as u64));
        k.push(u64::MAX - 2);
        k.extend(self.reserved.iter().map(|(_, v)| *v as u64));
        k
    }

    fn epilogue(&mut self) -> Result<(), Bad> { self.settle_and_refill() }
}

// ------------------------------------------------------------------------------------------------ dispatch

pub const UNI_TRAITS: [(UniKind, Traits); 5] = [
    (UniKind::MA, Traits { handles: false, has_reserve: true, ring_reservations: true }),
    (UniKind::MF, Traits { handles: false, has_reserve: false, ring_reservations: false }),
    (UniKind::MC, Traits { handles: false, has_reserve: false, ring_reservations: false }),
    (UniKind::ZA, Traits { handles: true, has_reserve: true, ring_reservations: false }),
    (UniKind::ZF, Traits { handles: true, has_reserve: true, ring_reservations: false }),
];
pub fn uni_traits(kind: UniKind) -> Traits { UNI_TRAITS.iter().find(|(k, _)| *k == kind).unwrap().1 }
pub const OGRE_TRAITS: Traits = Traits { handles: true, has_reserve: true, ring_reservations: false };

/// a Uni channel (MAX_STREAMS = 1, one stream) as a sequential system
pub fn uni_sys(kind: UniKind, b: usize, al: Alphabet, origin: u32) -> Box<dyn Sys> {
    let tr = uni_traits(kind);
    macro_rules! go { ($B:literal) => { match kind {
        UniKind::MA => Box::new(ChanSys::<U<ChannelUniMoveAtomic<u32, $B, 1>>>::new(tr, al, origin)) as Box<dyn Sys>,
        UniKind::MF => Box::new(ChanSys::<U<ChannelUniMoveFullSync<u32, $B, 1>>>::new(tr, al, origin)) as Box<dyn Sys>,
        UniKind::MC => Box::new(ChanSys::<U<ChannelUniMoveCrossbeam<u32, $B, 1>>>::new(tr, al, origin)) as Box<dyn Sys>,
        UniKind::ZA => Box::new(ChanSys::<U<ChannelUniZeroCopyAtomic<u32, $B, 1>>>::new(tr, al, origin)) as Box<dyn Sys>,
        UniKind::ZF => Box::new(ChanSys::<U<ChannelUniZeroCopyFullSync<u32, $B, 1>>>::new(tr, al, origin)) as Box<dyn Sys>,
    } } }
    match b { 2 => go!(2), 4 => go!(4), _ => panic!("uni_sys: BUFFER {b}") }
}

/// an ogre_arc Multi channel (MAX_STREAMS = 2, zero or one listener) as a sequential system
pub fn ogre_sys(kind: MultiKind, b: usize, al: Alphabet, origin: u32) -> Box<dyn Sys> {
    macro_rules! go { ($B:literal) => { match kind {
        MultiKind::OA => Box::new(ChanSys::<Mu<ChannelMultiOgreArcAtomic<u32, $B, 2>>>::new(OGRE_TRAITS, al, origin)) as Box<dyn Sys>,
        MultiKind::OF => Box::new(ChanSys::<Mu<ChannelMultiOgreArcFullSync<u32, $B, 2>>>::new(OGRE_TRAITS, al, origin)) as Box<dyn Sys>,
        _ => panic!("ogre_sys: {:?}", kind),
    } } }
    match b { 2 => go!(2), 4 => go!(4), _ => panic!("ogre_sys: BUFFER {b}") }
}

// ------------------------------------------------------------------------------------------------ raw rings

use crate::c01::RawRing;

pub struct RingSys<R: RawRing> { ring: R, cap: usize, fifo: VecDeque<u32>, sends: u32 }
impl<R: RawRing> RingSys<R> {
    pub fn new(cap: usize, origin: u32) -> Self {
        verif::set_sequence_origin(origin);
        let ring = R::mk();
        verif::set_sequence_origin(0);
        RingSys { ring, cap, fifo: VecDeque::new(), sends: 0 }
    }
}
impl<R: RawRing + VerifState> Sys for RingSys<R> {
    fn enabled(&self) -> Vec<String> { vec!["push".into(), "push_with".into(), "pop".into()] }
    fn apply(&mut self, choice: usize) -> Result<String, Bad> {
        let obs = match choice {
            0 | 1 => {
                let v = 1 + self.sends % PERIOD;
                let ok = self.ring.push(v, choice == 1);
                let full = self.fifo.len() >= self.cap;
                if ok && full { return Err(("accepted-beyond-capacity".into(), format!("push of {v} accepted with {} of {} elements enqueued", self.fifo.len(), self.cap))) }
                if !ok && !full { return Err(("rejected-with-room".into(), format!("push of {v} rejected with {} of {} elements enqueued", self.fifo.len(), self.cap))) }
                if ok { self.sends += 1; self.fifo.push_back(v) }
                format!("push {v} -> {}", if ok { "ok" } else { "full" })
            }
            _ => {
                let got = self.ring.pop();
                let want = self.fifo.pop_front();
                if got != want { return Err(("wrong-element".into(), format!("pop answered {:?} where {:?} was next", got, want))) }
                format!("pop -> {:?}", got)
            }
        };
        let len = self.ring.len();
        if len != self.fifo.len() { return Err(("length".into(), format!("available_elements_count() = {len} with {} elements enqueued", self.fifo.len()))) }
        Ok(format!("{obs} | len {len}"))
    }
    fn key(&self) -> Vec<u64> {
        let mut k = Vec::new();
        self.ring.verif_state(&mut k);
        k.push(u64::MAX);
        k.push((self.sends % PERIOD) as u64);
        k.extend(self.fifo.iter().map(|v| *v as u64));
        k
    }
    fn epilogue(&mut self) -> Result<(), Bad> {
        while let Some(w) = self.fifo.pop_front() { let g = self.ring.pop(); if g != Some(w) { return Err(("wrong-element".into(), format!("pop answered {:?} where {w} was next", g))) } }
        let mut n = 0;
        for k in 0..self.cap + 1 { if self.ring.push(100 + k as u32, false) { n += 1 } else { break } }
        if n != self.cap { return Err(("capacity-not-restored".into(), format!("an emptied ring of {} accepted {n} elements", self.cap))) }
        Ok(())
    }
}

pub fn ring_sys(ring: crate::c01::Ring, n: usize, origin: u32) -> Box<dyn Sys> {
    use crate::c01::Ring;
    use reactive_mutiny::ogre_std::ogre_queues::{atomic::{atomic_move::AtomicMove, atomic_zero_copy::AtomicZeroCopy}, full_sync::{full_sync_move::FullSyncMove, full_sync_zero_copy::FullSyncZeroCopy}};
    macro_rules! go { ($N:literal) => { match ring {
        Ring::AtomicMove => Box::new(RingSys::<AtomicMove<u32, $N>>::new($N, origin)) as Box<dyn Sys>,
        Ring::FullSyncMove => Box::new(RingSys::<FullSyncMove<u32, $N>>::new($N, origin)) as Box<dyn Sys>,
        Ring::AtomicZeroCopy => Box::new(RingSys::<AtomicZeroCopy<u32, AllocatorAtomicArray<u32, $N>, $N>>::new($N, origin)) as Box<dyn Sys>,
        Ring::FullSyncZeroCopy => Box::new(RingSys::<FullSyncZeroCopy<u32, AllocatorFullSyncArray<u32, $N>, $N>>::new($N, origin)) as Box<dyn Sys>,
    } } }
    match n { 2 => go!(2), 4 => go!(4), _ => panic!("ring_sys: size {n}") }
}

// ------------------------------------------------------------------------------------------------ pool allocators

pub struct AllocSys<A: BoundedOgreAllocator<u32>> { alloc: A, pool: usize, /// ids owned by the caller, in allocation order, with what was written
                                                    owned: Vec<(u32, u32)>, allocs: u32 }
impl<A: BoundedOgreAllocator<u32>> AllocSys<A> {
    pub fn new(pool: usize, origin: u32) -> Self {
        verif::set_sequence_origin(origin);
        let alloc = A::new();
        verif::set_sequence_origin(0);
        AllocSys { alloc, pool, owned: Vec::new(), allocs: 0 }
    }
    fn check_owned(&self, op: &str) -> Result<(), Bad> {
        for (id, v) in &self.owned {
            let seen = *self.alloc.ref_from_id(*id);
            if seen != *v { return Err(("corrupted-slot".into(), format!("after {op}: slot {id} holds {seen} instead of the {v} its owner wrote"))) }
        }
        Ok(())
    }
}
impl<A: BoundedOgreAllocator<u32> + VerifState> Sys for AllocSys<A> {
    fn enabled(&self) -> Vec<String> {
        let mut v = vec!["alloc_ref".to_string(), "alloc_with".to_string()];
        for k in 0..self.owned.len() { v.push(format!("dealloc_id #{k}")) }
        for k in 0..self.owned.len() { v.push(format!("dealloc_ref #{k}")) }
        v
    }
    fn apply(&mut self, choice: usize) -> Result<String, Bad> {
        let op = self.enabled()[choice].clone();
        let obs;
        if op == "alloc_ref" || op == "alloc_with" {
            let val = 1 + self.allocs % PERIOD;
            let r = if op == "alloc_ref" { self.alloc.alloc_ref().map(|(slot, id)| { *slot = val; id }) } else { self.alloc.alloc_with(|slot| *slot = val).map(|(_s, id)| id) };
            match r {
                Some(id) => {
                    if id as usize >= self.pool { return Err(("id-out-of-range".into(), format!("{op} returned id {id} on a pool of {}", self.pool))) }
                    if self.owned.iter().any(|(o, _)| *o == id) { return Err(("double-owner".into(), format!("{op} handed out slot {id}, which is still allocated"))) }
                    if self.owned.len() >= self.pool { return Err(("over-capacity".into(), format!("{op} succeeded with all {} slots outstanding", self.pool))) }
                    let r: &u32 = self.alloc.ref_from_id(id);
                    if self.alloc.id_from_ref(r) != id { return Err(("not-a-bijection".into(), format!("id_from_ref(ref_from_id({id})) = {}", self.alloc.id_from_ref(r)))) }
                    self.allocs += 1;
                    self.owned.push((id, val));
                    // which id comes out is an implementation choice; what is compared is whether the call succeeded
                    obs = format!("{op} -> some");
                }
                None => {
                    if self.owned.len() < self.pool { return Err(("unjustified-exhaustion".into(), format!("{op} failed with only {} of {} slots outstanding", self.owned.len(), self.pool))) }
                    obs = format!("{op} -> none");
                }
            }
        } else {
            let by_id = op.starts_with("dealloc_id");
            let k: usize = op.rsplit('#').next().unwrap().parse().unwrap();
            let (id, _v) = self.owned.remove(k);
            if by_id { self.alloc.dealloc_id(id) } else { let r: &u32 = self.alloc.ref_from_id(id); self.alloc.dealloc_ref(r) }
            obs = "freed".to_string();
        }
        self.check_owned(&op)?;
        Ok(obs)
    }
    fn key(&self) -> Vec<u64> {
        let mut k = Vec::new();
        self.alloc.verif_state(&mut k);
        k.push(u64::MAX);
        k.push((self.allocs % PERIOD) as u64);
        for (id, v) in &self.owned { k.push(*id as u64); k.push(*v as u64) }
        k
    }
    fn epilogue(&mut self) -> Result<(), Bad> {
        let mut fresh: Vec<u32> = Vec::new();
        for _ in 0..self.pool + 1 { match self.alloc.alloc_ref() { Some((_s, id)) => fresh.push(id), None => break } }
        if fresh.len() != self.pool - self.owned.len() {
            return Err(("capacity-not-restored".into(), format!("{} slots outstanding on a pool of {}, yet {} further allocations succeeded", self.owned.len(), self.pool, fresh.len())));
        }
        let mut all: Vec<u32> = fresh.iter().copied().chain(self.owned.iter().map(|o| o.0)).collect();
        all.sort();
        if all != (0..self.pool as u32).collect::<Vec<_>>() { return Err(("double-owner".into(), format!("with the pool exhausted the outstanding ids are {:?}", all))) }
        self.check_owned("exhausting the pool")
    }
}

pub fn alloc_sys(atomic: bool, pool: usize, origin: u32) -> Box<dyn Sys> {
    macro_rules! go { ($N:literal) => { if atomic { Box::new(AllocSys::<AllocatorAtomicArray<u32, $N>>::new($N, origin)) as Box<dyn Sys> } else { Box::new(AllocSys::<AllocatorFullSyncArray<u32, $N>>::new($N, origin)) as Box<dyn Sys> } } }
    match pool { 2 => go!(2), 4 => go!(4), _ => panic!("alloc_sys: pool {pool}") }
}

// ------------------------------------------------------------------------------------------------ raw movable rings with a payload that has a destructor

/// `push` / `pop` / `teardown` (last operation) on a raw movable ring whose elements have a destructor: the teardown must destroy
/// exactly the elements still enqueued, each once (C15: whatever the sequence origin).
pub struct DropRingSys<R> { ring: Option<R>, cap: usize, fifo: VecDeque<u32>, sends: u32, table: crate::c05core::SharedTable, finished: Vec<u32> }
pub trait DropRing: Sized { fn mk() -> Self; fn push(&self, v: crate::c05core::Tr) -> bool; fn pop(&self) -> Option<crate::c05core::Tr>; }
use reactive_mutiny::ogre_std::ogre_queues::{atomic::atomic_move as _am, full_sync::full_sync_move as _fm};
impl<const N: usize> DropRing for _am::AtomicMove<crate::c05core::Tr, N> {
    fn mk() -> Self { <Self as reactive_mutiny::ogre_std::ogre_queues::meta_container::MoveContainer<crate::c05core::Tr>>::new() }
    fn push(&self, v: crate::c05core::Tr) -> bool { use reactive_mutiny::ogre_std::ogre_queues::meta_publisher::MovePublisher; self.publish_movable(v).0.is_some() }
    fn pop(&self) -> Option<crate::c05core::Tr> { use reactive_mutiny::ogre_std::ogre_queues::meta_subscriber::MoveSubscriber; self.consume_movable() }
}
impl<const N: usize> DropRing for _fm::FullSyncMove<crate::c05core::Tr, N> {
    fn mk() -> Self { <Self as reactive_mutiny::ogre_std::ogre_queues::meta_container::MoveContainer<crate::c05core::Tr>>::new() }
    fn push(&self, v: crate::c05core::Tr) -> bool { use reactive_mutiny::ogre_std::ogre_queues::meta_publisher::MovePublisher; self.publish_movable(v).0.is_some() }
    fn pop(&self) -> Option<crate::c05core::Tr> { use reactive_mutiny::ogre_std::ogre_queues::meta_subscriber::MoveSubscriber; self.consume_movable() }
}
impl<R: DropRing> DropRingSys<R> {
    pub fn new(cap: usize, origin: u32) -> Self {
        verif::set_sequence_origin(origin);
        let ring = R::mk();
        verif::set_sequence_origin(0);
        DropRingSys { ring: Some(ring), cap, fifo: VecDeque::new(), sends: 0, table: Arc::new(std::sync::Mutex::new(crate::c05core::Table::default())), finished: Vec::new() }
    }
    fn judge(&self, op: &str) -> Result<(), Bad> {
        let t = self.table.lock().unwrap();
        if let Some(b) = t.bad.first() { return Err(("bad-destructor".into(), format!("after {op}: {b}"))) }
        for id in &self.fifo { if t.dropped.get(id).copied().unwrap_or(0) != 0 { return Err(("destroyed-while-enqueued".into(), format!("after {op}: element {id} is still enqueued but its destructor ran"))) } }
        for id in &self.finished { let d = t.dropped.get(id).copied().unwrap_or(0); if d != 1 { return Err((if d == 0 { "never-destroyed" } else { "destroyed-twice" }.into(), format!("after {op}: element {id} left the ring (or the ring is gone), its destructor ran {d} time(s)"))) } }
        Ok(())
    }
}
impl<R: DropRing> Sys for DropRingSys<R> {
    fn enabled(&self) -> Vec<String> { if self.ring.is_some() { vec!["push".into(), "pop".into(), "teardown".into()] } else { Vec::new() } }
    fn apply(&mut self, choice: usize) -> Result<String, Bad> {
        let obs;
        match choice {
            0 => {
                // ids are never reused within a history (histories are short)
                let id = 1 + self.sends;
                let ok = self.ring.as_ref().unwrap().push(crate::c05core::Tr::new(id, &self.table));
                let full = self.fifo.len() >= self.cap;
                if ok != !full { return Err((if ok { "accepted-beyond-capacity" } else { "rejected-with-room" }.into(), format!("push of {id} {} with {} of {} elements enqueued", if ok { "accepted" } else { "rejected" }, self.fifo.len(), self.cap))) }
                self.sends += 1;
                // a rejected element is handed back and dropped by the caller
                if ok { self.fifo.push_back(id) } else { self.finished.push(id) }
                obs = format!("push {id} -> {}", if ok { "ok" } else { "full" });
            }
            1 => {
                let got = self.ring.as_ref().unwrap().pop();
                let want = self.fifo.pop_front();
                let got_id = match &got { Some(t) => Some(t.read().map_err(|e| ("delivered-destroyed".to_string(), e))?), None => None };
                if got_id != want { return Err(("wrong-element".into(), format!("pop answered {:?} where {:?} was next", got_id, want))) }
                drop(got);
                if let Some(id) = want { self.finished.push(id) }
                obs = format!("pop -> {:?}", got_id);
            }
            _ => {
                let left = self.fifo.len();
                drop(self.ring.take());
                self.finished.extend(self.fifo.drain(..));
                let dropped = { let t = self.table.lock().unwrap(); self.finished.iter().rev().take(left).filter(|id| t.dropped.get(id).copied().unwrap_or(0) == 1).count() };
                obs = format!("teardown with {left} leftovers -> {dropped} destroyed");
            }
        }
        self.judge(&obs)?;
        Ok(obs)
    }
    fn key(&self) -> Vec<u64> { let mut k = vec![self.ring.is_some() as u64, self.sends as u64]; k.extend(self.fifo.iter().map(|v| *v as u64)); k }
}
pub fn drop_ring_sys(atomic: bool, n: usize, origin: u32) -> Box<dyn Sys> {
    macro_rules! go { ($N:literal) => { if atomic { Box::new(DropRingSys::<_am::AtomicMove<crate::c05core::Tr, $N>>::new($N, origin)) as Box<dyn Sys> } else { Box::new(DropRingSys::<_fm::FullSyncMove<crate::c05core::Tr, $N>>::new($N, origin)) as Box<dyn Sys> } } }
    match n { 2 => go!(2), 4 => go!(4), _ => panic!("drop_ring_sys: size {n}") }
}
