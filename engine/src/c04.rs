//! C04 -- no lost wake-up: an accepted event reaches a driven stream without further sends (E1)

use crate::common::*;
use crate::mcx::{self, Instance, Outcome, Status};
use crate::registry::{ScenarioDef, Tier};
use reactive_mutiny::prelude::advanced::*;
use std::sync::Arc;

#[derive(Debug, Clone)]
pub struct UniSpec {
    pub kind: UniKind,
    pub ep: Ep,
    pub b: usize,
    pub m: usize,
    pub streams: usize,
    pub producers: usize,
    pub events: usize,
}

fn make_uni<C>(spec: UniSpec) -> Instance
where C: FullDuplexUniChannel<ItemType = u32> + Send + Sync + 'static,
      C::DerivedItemType: Val + Send + 'static {
    let chan: Arc<C> = C::new("c04");
    let mut bodies: Vec<mcx::Body> = Vec::new();
    // producers: thread ids 0..P
    for p in 0..spec.producers {
        let chan = chan.clone();
        let (ep, events) = (spec.ep, spec.events);
        bodies.push(Box::new(move || {
            let c = static_ref(&chan);
            for k in 0..events {
                uni_send(c, ep, (100 * (p + 1) + k) as u32);
            }
        }));
    }
    // consumers: driven streams
    for s in 0..spec.streams {
        let (stream, _id) = chan.create_stream();
        bodies.push(Box::new(move || driven_consumer(stream, s as i64)));
    }
    // judge
    {
        let chan = chan.clone();
        bodies.push(Box::new(move || {
            let q = mcx::wait_quiescent();
            for (t, tv) in q.threads.iter().enumerate() {
                let code = match tv.status { Status::Finished => 0, Status::Parked => 1, _ => if tv.spinning { 3 } else { 2 } };
                mcx::rec("q.thread", t as i64, code);
            }
            mcx::rec("q.pending", chan.pending_items_count() as i64, 0);
            chan.cancel_all_streams();
        }));
    }
    let (np, ns) = (spec.producers, spec.streams);
    let keep = chan;    // teardown of the channel happens in the explorer thread, after the execution
    Instance { bodies, check: Box::new(move |out| { let _keep = &keep; judge_lost_wakeup(out, np, ns) }) }
}

/// Oracle shared by the Uni scenarios: at the first quiescence, with every producer finished and every consumer parked,
/// no accepted event may be undelivered.
pub fn judge_lost_wakeup(out: &Outcome, producers: usize, streams: usize) -> Vec<(String, String)> {
    let mut v = Vec::new();
    for (t, p) in out.panics.iter().enumerate() {
        if let Some(p) = p { v.push(("panic".to_string(), format!("thread {t}: {p}"))) }
    }
    for r in out.log.iter().filter(|r| r.op == "s.bad") {
        v.push(("bad-reject".to_string(), format!("send of {} contradicts the rejection contract (code {})", r.a, r.b)));
    }
    let Some(qpos) = out.log.iter().position(|r| r.op == "q.pending") else {
        // the judge never ran: somebody else ended the run (stall / runaway are engine-level and reported by the caller)
        return v;
    };
    let qstamp = out.log[qpos].stamp;
    let before = |r: &&mcx::Rec| r.stamp < qstamp;
    let states: Vec<(i64, i64)> = out.log.iter().filter(|r| r.op == "q.thread").map(|r| (r.a, r.b)).collect();
    let producers_done = states.iter().filter(|(t, _)| (*t as usize) < producers).all(|(_, c)| *c == 0);
    let consumers_parked = states.iter().filter(|(t, _)| (*t as usize) >= producers && (*t as usize) < producers + streams).all(|(_, c)| *c == 1);
    let spinning = states.iter().filter(|(t, _)| (*t as usize) < producers + streams).any(|(_, c)| *c == 3 || *c == 2);
    if spinning {
        v.push(("stall".to_string(), format!("threads blocked spinning at quiescence: {:?}", states)));
        return v;
    }
    if !(producers_done && consumers_parked) {
        return v;
    }
    let accepted: Vec<i64> = out.log.iter().filter(before).filter(|r| r.op == "s.ret" && r.b == 1).map(|r| r.a).collect();
    let delivered: Vec<i64> = out.log.iter().filter(before).filter(|r| r.op == "got").map(|r| r.a).collect();
    let lost: Vec<i64> = accepted.iter().copied().filter(|a| !delivered.contains(a)).collect();
    if !lost.is_empty() {
        // classification: `inflight` = every lost event's send was called before every consumer began its final poll
        let last_polls: Vec<u32> = (0..streams as i64).filter_map(|c| out.log.iter().filter(before).filter(|r| r.op == "p.call" && r.a == c).map(|r| r.stamp).max()).collect();
        let min_last_poll = last_polls.iter().copied().min().unwrap_or(0);
        let call_stamp = |val: i64| out.log.iter().find(|r| r.op == "s.call" && r.a == val).map(|r| r.stamp).unwrap_or(0);
        // judged on the earliest lost event: once one event is stuck behind parked streams, later sends see a longer queue
        // and (by the wake policy) do not wake anybody either -- those are consequences, not causes
        let first_lost = lost.iter().copied().min_by_key(|&e| call_stamp(e)).unwrap();
        let inflight = call_stamp(first_lost) < min_last_poll;
        let kind = if inflight { "lost-wakeup/inflight" } else { "lost-wakeup/late" };
        v.push((kind.to_string(), format!("all producers returned, all {streams} stream(s) parked, accepted-but-undelivered events {:?} (delivered {:?})", lost, delivered)));
    }
    // after the judge's cancel_all_streams() every consumer must end (C07 looks at that in depth)
    v
}

#[derive(Debug, Clone)]
pub struct MultiSpec {
    pub kind: MultiKind,
    pub ep: Ep,
    pub b: usize,
    pub m: usize,
    pub listeners: usize,
    pub producers: usize,
    pub events: usize,
}

fn make_multi<C>(spec: MultiSpec) -> Instance
where C: FullDuplexMultiChannel<ItemType = u32> + Send + Sync + 'static,
      C::DerivedItemType: Val + Send + 'static {
    let name = chan_name("c04");
    let chan: Arc<C> = C::new(name.clone());
    if spec.kind == MultiKind::ML { cleanup_mmap(&name) }   // the mapping stays valid; the directory entry is not needed
    let mut bodies: Vec<mcx::Body> = Vec::new();
    for p in 0..spec.producers {
        let chan = chan.clone();
        let (ep, events) = (spec.ep, spec.events);
        bodies.push(Box::new(move || {
            let c = static_ref(&chan);
            for k in 0..events {
                multi_send(c, ep, (100 * (p + 1) + k) as u32);
            }
        }));
    }
    for s in 0..spec.listeners {
        let (stream, _id) = chan.create_stream_for_new_events();
        bodies.push(Box::new(move || driven_consumer(stream, s as i64)));
    }
    {
        let chan = chan.clone();
        bodies.push(Box::new(move || {
            let q = mcx::wait_quiescent();
            for (t, tv) in q.threads.iter().enumerate() {
                let code = match tv.status { Status::Finished => 0, Status::Parked => 1, _ => if tv.spinning { 3 } else { 2 } };
                mcx::rec("q.thread", t as i64, code);
            }
            mcx::rec("q.pending", chan.pending_items_count() as i64, 0);
            chan.cancel_all_streams();
        }));
    }
    let (np, ns) = (spec.producers, spec.listeners);
    let keep = chan;
    Instance { bodies, check: Box::new(move |out| { let _keep = &keep; judge_lost_wakeup_multi(out, np, ns) }) }
}

/// Multi: at the first quiescence, with every producer finished and every listener parked, every listener must have
/// yielded every accepted event.
pub fn judge_lost_wakeup_multi(out: &Outcome, producers: usize, listeners: usize) -> Vec<(String, String)> {
    let mut v = Vec::new();
    for (t, p) in out.panics.iter().enumerate() {
        if let Some(p) = p { v.push(("panic".to_string(), format!("thread {t}: {p}"))) }
    }
    for r in out.log.iter().filter(|r| r.op == "s.bad") {
        v.push(("bad-reject".to_string(), format!("send of {} contradicts the rejection contract (code {})", r.a, r.b)));
    }
    let Some(qpos) = out.log.iter().position(|r| r.op == "q.pending") else { return v };
    let qstamp = out.log[qpos].stamp;
    let before = |r: &&mcx::Rec| r.stamp < qstamp;
    let states: Vec<(i64, i64)> = out.log.iter().filter(|r| r.op == "q.thread").map(|r| (r.a, r.b)).collect();
    let producers_done = states.iter().filter(|(t, _)| (*t as usize) < producers).all(|(_, c)| *c == 0);
    let spinning = states.iter().filter(|(t, _)| (*t as usize) < producers + listeners).any(|(_, c)| *c == 3 || *c == 2);
    if spinning {
        v.push(("stall".to_string(), format!("threads blocked spinning at quiescence: {:?}", states)));
        return v;
    }
    if !producers_done { return v }
    let accepted: Vec<i64> = out.log.iter().filter(before).filter(|r| r.op == "s.ret" && r.b == 1).map(|r| r.a).collect();
    for l in 0..listeners as i64 {
        let parked = states.iter().any(|(t, c)| *t as usize == producers + l as usize && *c == 1);
        if !parked { continue }
        let delivered: Vec<i64> = out.log.iter().filter(before).filter(|r| r.op == "got" && r.b == l).map(|r| r.a).collect();
        let lost: Vec<i64> = accepted.iter().copied().filter(|a| !delivered.contains(a)).collect();
        if !lost.is_empty() {
            let last_poll = out.log.iter().filter(before).filter(|r| r.op == "p.call" && r.a == l).map(|r| r.stamp).max().unwrap_or(0);
            let call_stamp = |val: i64| out.log.iter().find(|r| r.op == "s.call" && r.a == val).map(|r| r.stamp).unwrap_or(0);
            let first_lost = lost.iter().copied().min_by_key(|&e| call_stamp(e)).unwrap();
            let inflight = call_stamp(first_lost) < last_poll;
            let kind = if inflight { "lost-wakeup/inflight" } else { "lost-wakeup/late" };
            v.push((kind.to_string(), format!("all producers returned, listener {l} parked, accepted events it never yielded: {:?} (yielded {:?})", lost, delivered)));
            break;
        }
    }
    v
}

pub fn scenarios(tier: Tier) -> Vec<ScenarioDef> {
    let mut defs = Vec::new();
    for kind in MultiKind::ALL {
        let mut eps = vec![Ep::Send, Ep::SendWith];
        if kind.has_async() { eps.push(Ep::SendWithAsync) }
        if kind.has_reserve() { eps.push(Ep::Reserve) }
        for ep in eps {
            for (m, l) in [(1usize, 1usize), (2, 1), (2, 2)] {
                let family = format!("multi-{}/{}/M{m}-L{l}", kind.name(), ep.name());
                let mut rung_idx = 0;
                for p in 1..=2usize {
                    for e in 1..=4usize {
                        if p == 2 && e > 2 { continue }
                        if tier == Tier::Quick && kind == MultiKind::ML && (p == 2 || e > 3) { continue }
                        let spec = MultiSpec { kind, ep, b: 8, m, listeners: l, producers: p, events: e };
                        let rung = format!("P{p}-E{e}");
                        let small = p * e <= 2 && l == 1;
                        let bound = match tier { Tier::Quick => if small { 2 } else { 1 }, Tier::Thorough => if p + l >= 4 { 2 } else { 3 } };
                        defs.push(ScenarioDef {
                            prop: "C04", family: family.clone(), rung, rung_idx, max_bound: bound,
                            make: Arc::new(move || { let sp = spec.clone(); crate::dispatch_multi!(sp.kind, sp.b, sp.m, make_multi(sp)) }),
                        });
                        rung_idx += 1;
                    }
                }
            }
        }
    }
    let max_events = 4;
    let max_bound = match tier { Tier::Quick => 2, Tier::Thorough => 3 };
    for kind in UniKind::ALL {
        let mut eps = vec![Ep::Send, Ep::SendWith, Ep::SendWithAsync];
        if kind.has_reserve() { eps.push(Ep::Reserve) }
        for ep in eps {
            // families fix (kind, entry point, MAX_STREAMS, streams created); rungs grow producers / events, smallest first
            for (m, s) in [(1usize, 1usize), (2, 1), (2, 2)] {
                let family = format!("uni-{}/{}/M{m}-S{s}", kind.name(), ep.name());
                let mut rung_idx = 0;
                for p in 1..=(if tier == Tier::Thorough { 3 } else { 2 }) {
                    for e in 1..=max_events {
                        if tier == Tier::Quick && p == 2 && e > 2 { continue }
                        if tier == Tier::Thorough && ((p == 3 && e > 1) || (p == 2 && e > 3)) { continue }
                        let spec = UniSpec { kind, ep, b: 8, m, streams: s, producers: p, events: e };
                        let rung = format!("P{p}-E{e}");
                        let sp = spec.clone();
                        let small = p * e <= 2 && s == 1;
                        let bound = match tier { Tier::Quick => if small { 2 } else { 1 }, Tier::Thorough => if p + s >= 4 { 2 } else { max_bound } };
                        defs.push(ScenarioDef {
                            prop: "C04", family: family.clone(), rung, rung_idx, max_bound: bound,
                            make: Arc::new(move || { let sp = sp.clone(); crate::dispatch_uni!(sp.kind, sp.b, sp.m, make_uni(sp)) }),
                        });
                        rung_idx += 1;
                    }
                }
            }
        }
    }
    defs
}
