//! Instrumented payload (DESIGN.md §3.4): every value has an id; the table counts destructor runs per id and records
//! destructor runs on memory that does not hold a live value. One execution at a time per process.

use std::collections::HashMap;
use std::sync::Mutex;

const MAGIC: u32 = 0x5EED_C0DE;
const POISON: u32 = 0xDEAD_DEAD;

#[derive(Debug)]
pub struct Tracked { pub id: u32, magic: u32 }

#[derive(Default)]
pub struct Table { pub created: Vec<u32>, pub dropped: HashMap<u32, u32>, pub bad: Vec<String> }

static TABLE: Mutex<Option<Table>> = Mutex::new(None);

pub fn reset() { *TABLE.lock().unwrap() = Some(Table::default()) }
pub fn take() -> Table { TABLE.lock().unwrap().take().unwrap_or_default() }
pub fn drops_of(id: u32) -> u32 { TABLE.lock().unwrap().as_ref().map(|t| t.dropped.get(&id).copied().unwrap_or(0)).unwrap_or(0) }

impl Tracked {
    pub fn new(id: u32) -> Self {
        if let Some(t) = TABLE.lock().unwrap().as_mut() { t.created.push(id) }
        Tracked { id, magic: MAGIC ^ id }
    }
    /// the id, if this memory holds a live, uncorrupted value
    pub fn read(&self) -> Result<u32, String> {
        if self.magic == POISON { return Err(format!("value {} read after its destructor ran", self.id)) }
        if self.magic != MAGIC ^ self.id { return Err(format!("memory does not hold a value (id field {}, magic {:#x})", self.id, self.magic)) }
        Ok(self.id)
    }
}
impl Default for Tracked { fn default() -> Self { Tracked { id: u32::MAX, magic: MAGIC ^ u32::MAX } } }

impl Drop for Tracked {
    fn drop(&mut self) {
        let mut g = TABLE.lock().unwrap();
        if let Some(t) = g.as_mut() {
            if self.magic == POISON { t.bad.push(format!("destructor ran again on value {}", self.id)) }
            else if self.magic != MAGIC ^ self.id { t.bad.push(format!("destructor ran on memory that holds no value (id field {}, magic {:#x})", self.id, self.magic)) }
            else if self.id != u32::MAX { *t.dropped.entry(self.id).or_insert(0) += 1 }
        }
        self.magic = POISON;
    }
}
