//! C20 -- a suspended async send never blocks other producers or the consumers (E1)
//!
//! Thread 0 (A) polls `send_with_async` by hand; its setter suspends once; A then parks *in the harness* and is released only by
//! the judge. Thread 1 (B) performs one other operation. Thread 2 (J) waits until nobody else can run, looks at what the others are
//! doing, polls the stream (it is the consumer), then resumes A.

use crate::common::*;
use crate::mcx::{self, Instance, Outcome, Status};
use crate::registry::{ScenarioDef, Tier};
use reactive_mutiny::prelude::advanced::*;
use std::future::Future;
use std::pin::Pin;
use std::sync::{Arc, Mutex};
use std::task::{Context, Poll};

#[derive(Debug, Clone, Copy, PartialEq, Eq)]
pub enum Other { Send, SendWith, Reserve, AsyncReady, AsyncSuspended, Len, Nothing, Fill }
impl Other {
    fn name(self) -> &'static str { match self { Other::Send => "send", Other::SendWith => "send_with", Other::Reserve => "reserve", Other::AsyncReady => "async_ready", Other::AsyncSuspended => "async_suspended", Other::Len => "len", Other::Nothing => "nothing", Other::Fill => "fill" } }
}

#[derive(Debug, Clone)]
pub struct Spec {
    pub uni: Option<UniKind>,
    pub multi: Option<MultiKind>,
    pub other: Other,
    /// the other operation is performed by A itself after its send got suspended (single-task `select!` usage), not by thread B
    pub same_thread: bool,
    /// events already in the channel when A starts
    pub pending: usize,
}

/// suspends exactly once
struct Once(bool);
impl Future for Once {
    type Output = ();
    fn poll(mut self: Pin<&mut Self>, _cx: &mut Context<'_>) -> Poll<()> { if self.0 { Poll::Ready(()) } else { self.0 = true; Poll::Pending } }
}

const A_VAL: u32 = 700;
const B_VAL: u32 = 800;

/// starts a suspended send of `v`: polls it once (it must answer Pending), parks until resumed, then drives it to completion
fn suspended_send<C, D>(chan: &'static C, v: u32, between: impl FnOnce())
where C: ChannelProducer<'static, u32, D>, D: 'static + std::fmt::Debug {
    mcx::rec("s.call", v as i64, Ep::SendWithAsync.code());
    let fut = chan.send_with_async(move |slot: &'static mut u32| async move { Once(false).await; mcx::step(); unsafe { std::ptr::write(slot, v) }; slot });
    let mut fut = std::pin::pin!(fut);
    let w = noop_waker();
    let mut cx = Context::from_waker(&w);
    match fut.as_mut().poll(&mut cx) {
        Poll::Pending => {
            mcx::rec("suspended", v as i64, 0);
            between();
            mcx::park();
            mcx::rec("resumed", v as i64, 0);
            let r = loop { match fut.as_mut().poll(&mut cx) { Poll::Ready(r) => break r, Poll::Pending => mcx::yield_now() } };
            mcx::rec("s.ret", v as i64, matches!(r, keen_retry::RetryResult::Ok { .. }) as i64);
        }
        Poll::Ready(r) => {
            // rejected at once (full): nothing to suspend
            mcx::rec("s.ret", v as i64, matches!(r, keen_retry::RetryResult::Ok { .. }) as i64);
            between();
        }
    }
}

fn other_op<C, D>(chan: &'static C, other: Other, len: &dyn Fn() -> u32)
where C: ChannelProducer<'static, u32, D>, D: 'static + std::fmt::Debug {
    match other {
        Other::Send => { send_ep::<C, D>(chan, Ep::Send, B_VAL); }
        Other::SendWith => { send_ep::<C, D>(chan, Ep::SendWith, B_VAL); }
        Other::Reserve => { send_ep::<C, D>(chan, Ep::Reserve, B_VAL); }
        Other::AsyncReady => { send_ep::<C, D>(chan, Ep::SendWithAsync, B_VAL); }
        Other::AsyncSuspended => suspended_send::<C, D>(chan, B_VAL, || {}),
        Other::Len => { mcx::rec("len.call", 0, 0); let n = len(); mcx::rec("len.ret", n as i64, 0) }
        Other::Nothing => {}
        // fills the buffer while A is suspended (nobody consumes meanwhile): A's completion then meets a full channel
        Other::Fill => { for k in 0..4 { send_ep::<C, D>(chan, Ep::Send, B_VAL + k); } }
    }
}

macro_rules! scenario_body { ($chan:ident, $spec:ident, $stream:ident, $D:ty) => {{
    let mut bodies: Vec<mcx::Body> = Vec::new();
    {
        let chan = $chan.clone();
        let (other, same) = ($spec.other, $spec.same_thread);
        bodies.push(Box::new(move || {
            let c = static_ref(&chan);
            suspended_send::<_, $D>(c, A_VAL, || { if same { other_op::<_, $D>(c, other, &|| c.pending_items_count()) } });
        }) as mcx::Body);
    }
    {
        let chan = $chan.clone();
        let (other, same) = ($spec.other, $spec.same_thread);
        bodies.push(Box::new(move || {
            let c = static_ref(&chan);
            if !same { other_op::<_, $D>(c, other, &|| c.pending_items_count()) }
        }) as mcx::Body);
    }
    {
        let slot = Arc::new(Mutex::new(Some($stream)));
        let other = $spec.other;
        bodies.push(Box::new(move || {
            let mut stream = slot.lock().unwrap().take().unwrap();
            let waker = noop_waker();
            let report = |tag: &'static str| {
                let q = mcx::wait_quiescent();
                for (t, tv) in q.threads.iter().enumerate().take(2) {
                    let code = match tv.status { Status::Finished => 0, Status::Parked => 1, _ => if tv.spinning { 3 } else { 2 } };
                    mcx::rec(tag, t as i64, code);
                }
            };
            // phase 1: A (and possibly B) suspended; whatever was accepted must be obtainable now
            report("q1");
            if other != Other::Fill { for _ in 0..4 { let _ = poll_logged(&mut stream, &waker, 0); } }
            mcx::rec("phase1.done", 0, 0);
            // phase 2: a second suspended send is resumed before the first one (its completion must not wait for A)
            if other == Other::AsyncSuspended {
                mcx::unpark(1);
                report("q2");
                for _ in 0..3 { let _ = poll_logged(&mut stream, &waker, 0); }
                mcx::rec("phase2.done", 0, 0);
            }
            // phase 3: A is resumed; its event must arrive as well
            mcx::unpark(0);
            report("q3");
            if other == Other::Fill {
                // A may legitimately be waiting for room: make room, let it finish, then collect
                for _ in 0..5 { let _ = poll_logged(&mut stream, &waker, 0); }
                report("q4");
                for _ in 0..2 { let _ = poll_logged(&mut stream, &waker, 0); }
            } else {
                for _ in 0..3 { let _ = poll_logged(&mut stream, &waker, 0); }
            }
            mcx::rec("phase3.done", 0, 0);
            drop(stream);
        }) as mcx::Body);
    }
    bodies
}} }

fn make_uni<C>(spec: Spec) -> Instance
where C: FullDuplexUniChannel<ItemType = u32> + Send + Sync + 'static, C::DerivedItemType: Val + Send + 'static {
    let chan: Arc<C> = C::new("c20");
    for k in 0..spec.pending { let _ = chan.send(1 + k as u32); }
    let (stream, _) = chan.create_stream();
    let bodies = scenario_body!(chan, spec, stream, C::DerivedItemType);
    let sp = spec.clone();
    Instance { bodies, check: Box::new(move |out| { let _ = &chan; judge(out, &sp) }) }
}

fn make_multi<C>(spec: Spec) -> Instance
where C: FullDuplexMultiChannel<ItemType = u32> + Send + Sync + 'static, C::DerivedItemType: Val + Send + 'static {
    let chan: Arc<C> = C::new(chan_name("c20"));
    let (stream, _) = chan.create_stream_for_new_events();
    for k in 0..spec.pending { let _ = chan.send(1 + k as u32); }
    let bodies = scenario_body!(chan, spec, stream, C::DerivedItemType);
    let sp = spec.clone();
    Instance { bodies, check: Box::new(move |out| { let _ = &chan; judge(out, &sp) }) }
}

fn judge(out: &Outcome, sp: &Spec) -> Vec<(String, String)> {
    let mut v = Vec::new();
    for (t, p) in out.panics.iter().enumerate() { if let Some(p) = p { v.push(("panic".to_string(), format!("thread {t}: {p}"))) } }
    let log = &out.log;
    let ctx = || mcx::fmt_log(log);
    let stamp_of = |op: &str| log.iter().find(|r| r.op == op).map(|r| r.stamp);
    let got_before = |val: i64, until: u32| log.iter().any(|r| r.op == "got" && r.a == val && r.stamp < until);
    let a_suspended = log.iter().any(|r| r.op == "suspended" && r.a == A_VAL as i64);
    if !a_suspended { return v }   // A's send was rejected at once: nothing to examine
    // somebody is blocked although only suspended sends are outstanding
    if out.terminal == mcx::Terminal::Stall || out.terminal == mcx::Terminal::Runaway {
        let phase = if stamp_of("phase1.done").is_none() { "while the send is suspended" } else if sp.other == Other::AsyncSuspended && stamp_of("phase2.done").is_none() { "while the first send is still suspended and the second was resumed" } else { "after the suspended send was resumed" };
        let who: Vec<String> = out.statuses.iter().enumerate().filter(|(_, s)| !matches!(s, Status::Finished | Status::Parked)).map(|(t, _)| ["A (the suspended sender)", "B (the other operation)", "the consumer"][t.min(2)].to_string()).collect();
        v.push(("blocked-by-suspended-send".into(), format!("{phase}: {} cannot complete (spinning with nobody able to release it): {}", who.join(" and "), ctx())));
        return v;
    }
    for (tag, phase) in [("q1", "while the send is suspended"), ("q2", "while the first send is still suspended and the second was resumed"), ("q3", "after the suspended send was resumed"), ("q4", "after the suspended send was resumed and room was made")] {
        for r in log.iter().filter(|r| r.op == tag && r.b >= 2) {
            // with the buffer filled meanwhile, the resumed sender may wait for room until the consumer polls
            if sp.other == Other::Fill && tag == "q3" && r.a == 0 { continue }
            v.push(("blocked-by-suspended-send".into(), format!("{phase}: thread {} is spinning with nobody able to release it: {}", r.a, ctx())));
        }
    }
    if !v.is_empty() { return v }
    if out.terminal != mcx::Terminal::Done { v.push(("no-termination".into(), format!("execution ended {:?}: {}", out.terminal, ctx()))); return v }
    // phase 1: everything accepted so far (prefilled events, B's completed send) is delivered without waiting for A
    let p1 = stamp_of("phase1.done").unwrap_or(u32::MAX);
    for k in 0..sp.pending as i64 { if sp.other != Other::Fill && !got_before(1 + k, p1) { v.push(("delivery-waits-for-suspended-send".into(), format!("event {} was in the channel before the suspended send began, but polls made while it is suspended did not yield it: {}", 1 + k, ctx()))) } }
    let b_accepted_early = log.iter().any(|r| r.op == "s.ret" && r.a == B_VAL as i64 && r.b == 1 && r.stamp < p1);
    if sp.other != Other::Fill && b_accepted_early && !got_before(B_VAL as i64, p1) { v.push(("delivery-waits-for-suspended-send".into(), format!("B's event was accepted while A's send is suspended, but polls made meanwhile did not yield it: {}", ctx()))) }
    if got_before(A_VAL as i64, p1) { v.push(("suspended-event-delivered".into(), format!("A's event was yielded before its setter completed: {}", ctx()))) }
    // phase 2
    if sp.other == Other::AsyncSuspended {
        let p2 = stamp_of("phase2.done").unwrap_or(u32::MAX);
        let b_ok = log.iter().any(|r| r.op == "s.ret" && r.a == B_VAL as i64 && r.b == 1 && r.stamp < p2);
        if b_ok && !got_before(B_VAL as i64, p2) { v.push(("delivery-waits-for-suspended-send".into(), format!("the second send completed while the first is still suspended, but its event was not yielded: {}", ctx()))) }
    }
    // phase 3: A's event arrives too; nothing is yielded twice
    let a_ok = log.iter().any(|r| r.op == "s.ret" && r.a == A_VAL as i64 && r.b == 1);
    if a_ok && !log.iter().any(|r| r.op == "got" && r.a == A_VAL as i64) { v.push(("suspended-event-lost".into(), format!("A's send completed successfully but its event was never yielded: {}", ctx()))) }
    let mut gots: Vec<i64> = log.iter().filter(|r| r.op == "got").map(|r| r.a).collect(); gots.sort();
    if gots.windows(2).any(|w| w[0] == w[1]) { v.push(("duplicate-delivery".into(), ctx())) }
    v
}

pub fn scenarios(tier: Tier) -> Vec<ScenarioDef> {
    let mut defs = Vec::new();
    let mut kinds: Vec<(Option<UniKind>, Option<MultiKind>)> = UniKind::ALL.iter().map(|k| (Some(*k), None)).collect();
    kinds.extend(MultiKind::NON_LOG.iter().map(|k| (None, Some(*k))));
    for (uni, multi) in kinds {
        let kname = match (uni, multi) { (Some(k), _) => format!("uni-{}", k.name()), (_, Some(k)) => format!("multi-{}", k.name()), _ => unreachable!() };
        let has_reserve = uni.map(|k| k.has_reserve()).unwrap_or(false) || multi.map(|k| k.has_reserve()).unwrap_or(false);
        let mut others = vec![Other::Nothing, Other::Send, Other::SendWith, Other::AsyncReady, Other::AsyncSuspended, Other::Len, Other::Fill];
        if has_reserve { others.push(Other::Reserve) }
        for other in others {
            for same_thread in [false, true] {
                if same_thread && matches!(other, Other::Nothing | Other::AsyncSuspended) { continue }
                if other == Other::Fill && multi.is_some() && !multi.map(|k| k.has_reserve()).unwrap_or(false) { continue }   // the Arc Multi channels wait by design when a listener's queue is full
                for pending in [0usize, 1] {
                    if tier == Tier::Quick && pending == 1 && !matches!(other, Other::Nothing | Other::Send) { continue }
                    let spec = Spec { uni, multi, other, same_thread, pending };
                    let bound = match tier { Tier::Quick => 3, Tier::Thorough => 4 };
                    defs.push(ScenarioDef { prop: "C20", family: format!("{kname}/{}{}", other.name(), if same_thread { "-same-thread" } else { "" }), rung: format!("Q{pending}"), rung_idx: pending, max_bound: bound,
                        make: Arc::new(move || { let sp = spec.clone(); match (sp.uni, sp.multi) {
                            (Some(k), _) => crate::dispatch_uni!(k, 4, 1, make_uni(sp)),
                            (_, Some(k)) => crate::dispatch_multi!(k, 4, 1, make_multi(sp)),
                            _ => unreachable!() } }) });
                }
            }
        }
    }
    defs
}
